"""
B. Control-flow graph per function, with labelled branch edges, exception edges, duplicated `finally`
blocks (one copy per way of entering them), dominators and path queries.
"""
import ast
from .model import AnalysisError, dotted


class Node:
    __slots__ = ("id", "kind", "ast", "tag", "succ", "pred")

    def __init__(self, id, kind, astnode, tag):
        self.id = id
        self.kind = kind      # entry | exit | raise_exit | stmt | test | for | with | handler | reraise | join
        self.ast = astnode
        self.tag = tag        # '' or e.g. 'fin-exc@123' for duplicated finally bodies
        self.succ = []        # Edge
        self.pred = []        # Edge

    @property
    def lineno(self):
        return getattr(self.ast, "lineno", 0)

    def __repr__(self):
        return "<N%d %s %s L%s%s>" % (self.id, self.kind, type(self.ast).__name__ if self.ast is not None else "-",
                                      self.lineno, " " + self.tag if self.tag else "")


class Edge:
    __slots__ = ("src", "dst", "kind", "test", "polarity", "alt")

    def __init__(self, src, dst, kind, test=None, polarity=None):
        self.src = src
        self.dst = dst
        self.kind = kind          # next | true | false | exc | jump
        self.test = test          # ast expr for branch edges
        self.polarity = polarity  # True / False for branch edges
        self.alt = None           # the same test with explaining variables replaced by their defining expressions (None if nothing to replace)

    def tests(self):
        """the spellings of this branch's condition: as written, and with single-assignment locals seen through"""
        return [t for t in (self.test, self.alt) if t is not None]

    def __repr__(self):
        return "<E %r -%s-> %r>" % (self.src, self.kind, self.dst)


def facts_of(test, polarity):
    """atoms (expr, polarity) that certainly hold when `test` evaluated to `polarity`"""
    out = []
    if isinstance(test, ast.UnaryOp) and isinstance(test.op, ast.Not):
        return facts_of(test.operand, not polarity)
    if isinstance(test, ast.BoolOp):
        if isinstance(test.op, ast.And) and polarity:
            for v in test.values:
                out += facts_of(v, True)
            return out
        if isinstance(test.op, ast.Or) and not polarity:
            for v in test.values:
                out += facts_of(v, False)
            return out
        return [(test, polarity)]
    out.append((test, polarity))
    # the same fact in its complementary spelling: `a is not b` holding is `a is b` not holding (likewise != / ==, not in / in), so that a rule written for one
    # spelling also recognises the other
    if isinstance(test, ast.Compare) and len(test.ops) == 1 and type(test.ops[0]) in _COMPLEMENT:
        twin = _complement_cache.get(id(test))
        if twin is None or twin[0] is not test:
            c = ast.Compare(left=test.left, ops=[_COMPLEMENT[type(test.ops[0])]()], comparators=test.comparators)
            ast.copy_location(c, test)
            c._parent = getattr(test, "_parent", None)
            twin = (test, c)
            _complement_cache[id(test)] = twin
        out.append((twin[1], not polarity))
    return out


_COMPLEMENT = {ast.Is: ast.IsNot, ast.IsNot: ast.Is, ast.Eq: ast.NotEq, ast.NotEq: ast.Eq, ast.In: ast.NotIn, ast.NotIn: ast.In}
_complement_cache = {}


def is_const_true(expr):
    return isinstance(expr, ast.Constant) and bool(expr.value) is True and expr.value is not None


CATCH_ALL = {"Exception", "BaseException"}


def handler_is_catch_all(h):
    if h.type is None:
        return True
    types = h.type.elts if isinstance(h.type, ast.Tuple) else [h.type]
    for t in types:
        d = dotted(t)
        if d in CATCH_ALL or d == "builtins.Exception":
            return True
    return False


def suppress_info(item):
    """for `with contextlib.suppress(A, B)` return list of type exprs, else None"""
    e = item.context_expr
    if isinstance(e, ast.Call):
        d = dotted(e.func)
        if d in ("contextlib.suppress", "suppress"):
            return list(e.args)
    return None


class _Loop:
    def __init__(self, cont_node):
        self.cont_node = cont_node
        self.breaks = []   # frontier


class _Handlers:
    def __init__(self, nodes, covering):
        self.nodes = nodes
        self.covering = covering


class _Suppress:
    def __init__(self, covering):
        self.covering = covering
        self.pending = []  # frontier items


class _Finally:
    def __init__(self, trynode):
        self.trynode = trynode
        self.copies = {}   # kind -> entry node


class CFG:
    def __init__(self, fn_node, name="<fn>"):
        self.name = name
        self.fn_node = fn_node
        self.nodes = []
        self.by_ast = {}
        self.entry = self._new("entry", None, "")
        self.exit = self._new("exit", None, "")
        self.raise_exit = self._new("raise_exit", None, "")
        body = fn_node.body if not isinstance(fn_node, ast.Lambda) else [ast.Expr(value=fn_node.body)]
        if isinstance(fn_node, ast.Lambda):
            ast.copy_location(body[0], fn_node.body)
        fr = self._seq(body, [(self.entry, "next", None, None)], [], "")
        self._connect(fr, self.exit)
        self._dom = None
        self._see_through_explaining_variables()

    def _see_through_explaining_variables(self):
        """`t = <expr>` ... `if t:` is the same decision as `if <expr>:`. For every branch edge whose test mentions, at an atom position, a local that is assigned exactly
        once in the function (plain `name = expr`, nothing else stores it) by a statement that dominates the branch, the edge's test is replaced by the test with the
        defining expression in place of the name. (The node keeps its AST; only what the guard queries read changes.)"""
        fn = self.fn_node
        if isinstance(fn, ast.Lambda):
            return
        params = {a.arg for a in fn.args.posonlyargs + fn.args.args + fn.args.kwonlyargs}
        if fn.args.vararg:
            params.add(fn.args.vararg.arg)
        if fn.args.kwarg:
            params.add(fn.args.kwarg.arg)
        plain, other = {}, set()
        for n in walk_no_nested(fn):
            if isinstance(n, ast.Assign) and len(n.targets) == 1 and isinstance(n.targets[0], ast.Name):
                plain.setdefault(n.targets[0].id, []).append(n)
            elif isinstance(n, ast.Name) and isinstance(n.ctx, (ast.Store, ast.Del)):
                par = getattr(n, "_parent", None)
                if not (isinstance(par, ast.Assign) and len(par.targets) == 1 and par.targets[0] is n):
                    other.add(n.id)
            elif isinstance(n, ast.ExceptHandler) and n.name:
                other.add(n.name)
            elif isinstance(n, (ast.Global, ast.Nonlocal)):
                other.update(n.names)
        single = {k: v[0] for k, v in plain.items() if len(v) == 1 and k not in other and k not in params
                  and not any(isinstance(x, (ast.NamedExpr, ast.Yield, ast.YieldFrom, ast.Await)) for x in ast.walk(v[0].value))}
        if not single:
            return

        def subst(test, src, depth=0):
            if depth > 3:
                return test
            if isinstance(test, ast.Name) and test.id in single:
                a = single[test.id]
                an = self.by_ast.get(id(a), [])
                if an and all(self.dominates(x, src) for x in an[:1]):
                    return subst(a.value, src, depth + 1)
                return test
            if isinstance(test, ast.UnaryOp) and isinstance(test.op, ast.Not):
                inner = subst(test.operand, src, depth)
                if inner is not test.operand:
                    new = ast.UnaryOp(op=ast.Not(), operand=inner)
                    ast.copy_location(new, test)
                    new._parent = getattr(test, "_parent", None)
                    return new
                return test
            if isinstance(test, ast.BoolOp):
                vals = [subst(v, src, depth) for v in test.values]
                if any(a is not b for a, b in zip(vals, test.values)):
                    new = ast.BoolOp(op=test.op, values=vals)
                    ast.copy_location(new, test)
                    new._parent = getattr(test, "_parent", None)
                    return new
            return test
        cache = {}
        for n in self.nodes:
            for e in n.succ:
                if e.test is None:
                    continue
                key = (id(e.test), n.id)
                if key not in cache:
                    cache[key] = subst(e.test, n)
                if cache[key] is not e.test:
                    e.alt = cache[key]

    # ------------------------------------------------------------------ construction
    def _new(self, kind, astnode, tag):
        n = Node(len(self.nodes), kind, astnode, tag)
        self.nodes.append(n)
        if astnode is not None:
            self.by_ast.setdefault(id(astnode), []).append(n)
        return n

    def _edge(self, src, dst, kind, test=None, polarity=None):
        for e in src.succ:
            if e.dst is dst and e.kind == kind and e.test is test and e.polarity == polarity:
                return e
        e = Edge(src, dst, kind, test, polarity)
        src.succ.append(e)
        dst.pred.append(e)
        return e

    def _connect(self, frontier, node):
        for (src, kind, test, pol) in frontier:
            self._edge(src, node, kind, test, pol)

    def _route_exc(self, src, stack):
        i = len(stack) - 1
        while i >= 0:
            item = stack[i]
            if isinstance(item, _Handlers):
                for h in item.nodes:
                    self._edge(src, h, "exc")
                if item.covering:
                    return
            elif isinstance(item, _Suppress):
                item.pending.append((src, "exc", None, None))
                if item.covering:
                    return
            elif isinstance(item, _Finally):
                entry = self._finally_copy(item, "exc", stack[:i])
                self._edge(src, entry, "exc")
                return
            i -= 1
        self._edge(src, self.raise_exit, "exc")

    def _route_jump(self, kind, frontier, stack):
        """kind: return | break | continue"""
        i = len(stack) - 1
        while i >= 0:
            item = stack[i]
            if isinstance(item, _Finally):
                entry = self._finally_copy(item, kind, stack[:i])
                self._connect(frontier, entry)
                return
            if isinstance(item, _Loop) and kind in ("break", "continue"):
                if kind == "break":
                    item.breaks.extend(frontier)
                else:
                    self._connect(frontier, item.cont_node)
                return
            i -= 1
        if kind != "return":
            raise AnalysisError("%s outside loop in %s" % (kind, self.name))
        self._connect(frontier, self.exit)

    def _finally_copy(self, fin, kind, outer_stack):
        if kind in fin.copies:
            return fin.copies[kind]
        tag = "fin-%s@%d" % (kind, fin.trynode.lineno)
        entry = self._new("join", fin.trynode, tag)
        fin.copies[kind] = entry
        fr = self._seq(fin.trynode.finalbody, [(entry, "next", None, None)], outer_stack, tag)
        if kind == "exc":
            if fr:
                rr = self._new("reraise", fin.trynode, tag)
                self._connect(fr, rr)
                self._route_exc(rr, outer_stack)
        else:
            if fr:
                self._route_jump(kind, fr, outer_stack)
        return entry

    def _seq(self, stmts, frontier, stack, tag):
        for st in stmts:
            if not frontier:
                # unreachable code: still build it (so that by_ast knows it) but from an empty frontier
                pass
            frontier = self._stmt(st, frontier, stack, tag)
        return frontier

    def _stmt(self, st, frontier, stack, tag):
        if isinstance(st, ast.If):
            t = self._new("test", st, tag)
            self._connect(frontier, t)
            self._route_exc(t, stack)
            out = self._seq(st.body, [(t, "true", st.test, True)], stack, tag)
            if st.orelse:
                out = out + self._seq(st.orelse, [(t, "false", st.test, False)], stack, tag)
            else:
                out = out + [(t, "false", st.test, False)]
            return out
        if isinstance(st, ast.While):
            t = self._new("test", st, tag)
            self._connect(frontier, t)
            self._route_exc(t, stack)
            loop = _Loop(t)
            body_out = self._seq(st.body, [(t, "true", st.test, True)], stack + [loop], tag)
            self._connect(body_out, t)
            out = []
            if not is_const_true(st.test):
                if st.orelse:
                    out = self._seq(st.orelse, [(t, "false", st.test, False)], stack, tag)
                else:
                    out = [(t, "false", st.test, False)]
            return out + loop.breaks
        if isinstance(st, ast.For):
            t = self._new("for", st, tag)
            self._connect(frontier, t)
            self._route_exc(t, stack)
            loop = _Loop(t)
            body_out = self._seq(st.body, [(t, "true", None, None)], stack + [loop], tag)
            self._connect(body_out, t)
            if st.orelse:
                out = self._seq(st.orelse, [(t, "false", None, None)], stack, tag)
            else:
                out = [(t, "false", None, None)]
            return out + loop.breaks
        if isinstance(st, ast.With):
            w = self._new("with", st, tag)
            self._connect(frontier, w)
            self._route_exc(w, stack)
            sup = None
            for item in st.items:
                types = suppress_info(item)
                if types is not None:
                    covering = any(dotted(t) in CATCH_ALL for t in types)
                    sup = _Suppress(covering)
            inner = stack + [sup] if sup else stack
            out = self._seq(st.body, [(w, "next", None, None)], inner, tag)
            if sup:
                out = out + sup.pending
            return out
        if isinstance(st, ast.Try):
            return self._try(st, frontier, stack, tag)
        if isinstance(st, (ast.Return,)):
            n = self._new("stmt", st, tag)
            self._connect(frontier, n)
            if st.value is not None:
                self._route_exc(n, stack)
            self._route_jump("return", [(n, "jump", None, None)], stack)
            return []
        if isinstance(st, ast.Break):
            n = self._new("stmt", st, tag)
            self._connect(frontier, n)
            self._route_jump("break", [(n, "jump", None, None)], stack)
            return []
        if isinstance(st, ast.Continue):
            n = self._new("stmt", st, tag)
            self._connect(frontier, n)
            self._route_jump("continue", [(n, "jump", None, None)], stack)
            return []
        if isinstance(st, ast.Raise):
            n = self._new("stmt", st, tag)
            self._connect(frontier, n)
            self._route_exc(n, stack)
            return []
        if isinstance(st, ast.Assert):
            n = self._new("test", st, tag)
            self._connect(frontier, n)
            self._route_exc(n, stack)
            return [(n, "true", st.test, True)]
        if isinstance(st, (ast.Pass, ast.Global, ast.Nonlocal)):
            n = self._new("stmt", st, tag)
            self._connect(frontier, n)
            return [(n, "next", None, None)]
        if isinstance(st, (ast.Expr, ast.Assign, ast.AugAssign, ast.AnnAssign, ast.Delete, ast.Import, ast.ImportFrom,
                           ast.FunctionDef, ast.ClassDef)):
            n = self._new("stmt", st, tag)
            self._connect(frontier, n)
            if not isinstance(st, (ast.FunctionDef, ast.ClassDef)):
                self._route_exc(n, stack)
            return [(n, "next", None, None)]
        raise AnalysisError("statement kind %s not modelled (%s line %d)" % (type(st).__name__, self.name, getattr(st, "lineno", 0)))

    def _try(self, st, frontier, stack, tag):
        if type(st).__name__ == "TryStar":
            raise AnalysisError("try* not modelled")
        fin = _Finally(st) if st.finalbody else None
        base = stack + [fin] if fin else stack
        hnodes = [self._new("handler", h, tag) for h in st.handlers]
        covering = any(handler_is_catch_all(h) for h in st.handlers)
        body_stack = base + [_Handlers(hnodes, covering)] if hnodes else base
        out = self._seq(st.body, frontier, body_stack, tag)
        if st.orelse:
            out = self._seq(st.orelse, out, base, tag)
        for h, hn in zip(st.handlers, hnodes):
            out = out + self._seq(h.body, [(hn, "next", None, None)], base, tag)
        if fin:
            ntag = "fin-normal@%d" % st.lineno if not tag else tag + "/fin-normal@%d" % st.lineno
            j = self._new("join", st, ntag)
            self._connect(out, j)
            out = self._seq(st.finalbody, [(j, "next", None, None)], stack, ntag)
        return out

    # ------------------------------------------------------------------ queries
    def nodes_for(self, astnode):
        return list(self.by_ast.get(id(astnode), []))

    def stmt_nodes(self):
        return [n for n in self.nodes if n.kind in ("stmt", "test", "for", "with", "handler")]

    def reachable(self, starts, edge_ok=None, node_blocked=None):
        seen = set()
        work = []
        for s in starts:
            if node_blocked and node_blocked(s):
                continue
            if s.id not in seen:
                seen.add(s.id)
                work.append(s)
        while work:
            n = work.pop()
            for e in n.succ:
                if edge_ok and not edge_ok(e):
                    continue
                d = e.dst
                if d.id in seen:
                    continue
                if node_blocked and node_blocked(d):
                    continue
                seen.add(d.id)
                work.append(d)
        return seen

    def live(self):
        if not hasattr(self, "_live"):
            self._live = self.reachable([self.entry])
        return self._live

    def dominators(self):
        """dict node id -> set of dominator ids (over nodes reachable from entry)"""
        if self._dom is not None:
            return self._dom
        live = self.live()
        order = [n for n in self.nodes if n.id in live]
        allset = set(live)
        dom = {n.id: set(allset) for n in order}
        dom[self.entry.id] = {self.entry.id}
        changed = True
        while changed:
            changed = False
            for n in order:
                if n is self.entry:
                    continue
                preds = [e.src.id for e in n.pred if e.src.id in live]
                if preds:
                    new = set.intersection(*(dom[p] for p in preds))
                else:
                    new = set()
                new = new | {n.id}
                if new != dom[n.id]:
                    dom[n.id] = new
                    changed = True
        self._dom = dom
        return dom

    def dominates(self, a, b):
        """a dominates b (both live)"""
        d = self.dominators()
        return b.id in d and a.id in d[b.id]

    def guarded(self, target, edge_is_fact, kill=None, edge_ok=None):
        """True iff every path from entry to `target` crosses an edge e with edge_is_fact(e), and no node with kill(node)
        lies between the last such edge and the target. Unreachable targets are vacuously guarded."""
        def ok(e):
            if edge_ok and not edge_ok(e):
                return False
            return not edge_is_fact(e)
        starts = [self.entry]
        if kill:
            starts += [n for n in self.nodes if n.id in self.live() and kill(n)]
        seen = set()
        work = list(starts)
        for s in starts:
            seen.add(s.id)
        if target.id in seen and target is self.entry:
            return False
        while work:
            n = work.pop()
            for e in n.succ:
                if not ok(e):
                    continue
                if e.dst is target:
                    return False
                if e.dst.id not in seen:
                    seen.add(e.dst.id)
                    work.append(e.dst)
        return True

    def all_paths_pass(self, starts, through, edge_ok=None, targets=None):
        """True iff every path from any start node to any node of `targets` (default: exit and raise_exit) passes a node n
        with through(n). Paths start *after* the start nodes."""
        tg = set(t.id for t in (targets if targets is not None else [self.exit, self.raise_exit]))
        seen = set()
        work = []
        for s in starts:
            for e in s.succ:
                if edge_ok and not edge_ok(e):
                    continue
                if through(e.dst):
                    continue
                if e.dst.id in tg:
                    return False
                if e.dst.id not in seen:
                    seen.add(e.dst.id)
                    work.append(e.dst)
        while work:
            n = work.pop()
            for e in n.succ:
                if edge_ok and not edge_ok(e):
                    continue
                d = e.dst
                if through(d):
                    continue
                if d.id in tg:
                    return False
                if d.id not in seen:
                    seen.add(d.id)
                    work.append(d)
        return True

    def all_paths_cross(self, starts, edge_through, edge_ok=None, targets=None):
        """True iff every path from any start node to any node of `targets` (default: exit and raise_exit) crosses an edge e with
        edge_through(e). Unlike all_paths_pass this distinguishes how a node is left: a statement that raises has not taken effect."""
        tg = set(t.id for t in (targets if targets is not None else [self.exit, self.raise_exit]))
        seen = set()
        work = list(starts)
        for s in starts:
            seen.add(s.id)
        while work:
            n = work.pop()
            for e in n.succ:
                if edge_ok and not edge_ok(e):
                    continue
                if edge_through(e):
                    continue
                if e.dst.id in tg:
                    return False
                if e.dst.id not in seen:
                    seen.add(e.dst.id)
                    work.append(e.dst)
        return True

    def path_exists(self, starts, goal, edge_ok=None, node_blocked=None):
        """is there a path (length >= 1) from a start to a node satisfying goal(n)?"""
        seen = set()
        work = []
        for s in starts:
            for e in s.succ:
                if edge_ok and not edge_ok(e):
                    continue
                d = e.dst
                if node_blocked and node_blocked(d):
                    continue
                if goal(d):
                    return True
                if d.id not in seen:
                    seen.add(d.id)
                    work.append(d)
        while work:
            n = work.pop()
            for e in n.succ:
                if edge_ok and not edge_ok(e):
                    continue
                d = e.dst
                if node_blocked and node_blocked(d):
                    continue
                if goal(d):
                    return True
                if d.id not in seen:
                    seen.add(d.id)
                    work.append(d)
        return False

    def dump(self):
        lines = []
        for n in self.nodes:
            lines.append("%r -> %s" % (n, ", ".join("%s:N%d" % (e.kind, e.dst.id) for e in n.succ)))
        return "\n".join(lines)


def no_exc(e):
    """edge filter: ignore exception edges (normal control flow only)"""
    return e.kind != "exc"


def stmt_exprs(node):
    """The expressions evaluated *by this CFG node itself* (not by nested statements)."""
    st = node.ast
    k = node.kind
    if st is None:
        return []
    if k == "test":
        return [st.test]
    if k == "for":
        return [st.iter, st.target]
    if k == "with":
        out = []
        for it in st.items:
            out.append(it.context_expr)
            if it.optional_vars is not None:
                out.append(it.optional_vars)
        return out
    if k == "handler":
        return [st.type] if st.type is not None else []
    if k == "stmt":
        if isinstance(st, (ast.FunctionDef, ast.ClassDef)):
            return list(st.decorator_list)
        return [st]
    return []


def walk_no_nested(node):
    """ast.walk that does not descend into nested function/class definitions or lambdas"""
    todo = [node]
    while todo:
        n = todo.pop()
        yield n
        for c in ast.iter_child_nodes(n):
            if isinstance(c, (ast.FunctionDef, ast.ClassDef, ast.Lambda, ast.AsyncFunctionDef)):
                continue
            todo.append(c)


def calls_in(node):
    """ast.Call nodes evaluated by this CFG node"""
    out = []
    for e in stmt_exprs(node):
        for n in walk_no_nested(e):
            if isinstance(n, ast.Call):
                out.append(n)
    return out
