"""
Abstract evaluation of branch conditions over a finite set of cases ("values touched only through comparisons").

lexical_conditions(node, stop): the (test, polarity) pairs of the enclosing `if` statements between node and stop.
eval_test(test, atom): three-valued evaluation (True / False / None=unknown) of and/or/not over atoms decided by `atom`.
"""
import ast


def lexical_conditions(node, stop):
    out = []
    child = node
    n = getattr(node, "_parent", None)
    while n is not None and n is not stop:
        if isinstance(n, ast.If):
            if child in n.body:
                out.append((n.test, True))
            elif child in n.orelse:
                out.append((n.test, False))
        elif isinstance(n, ast.While):
            if child in n.body:
                out.append((n.test, True))
        child = n
        n = getattr(n, "_parent", None)
    out.reverse()
    return out


def eval_test(test, atom):
    if isinstance(test, ast.UnaryOp) and isinstance(test.op, ast.Not):
        v = eval_test(test.operand, atom)
        return None if v is None else (not v)
    if isinstance(test, ast.BoolOp):
        vals = [eval_test(v, atom) for v in test.values]
        if isinstance(test.op, ast.And):
            if any(v is False for v in vals):
                return False
            if all(v is True for v in vals):
                return True
            return None
        else:
            if any(v is True for v in vals):
                return True
            if all(v is False for v in vals):
                return False
            return None
    if isinstance(test, ast.Constant):
        return bool(test.value)
    return atom(test)


def reached_under(node, stop, atom):
    """is `node` executed, given the atoms, considering only the enclosing `if`s up to `stop`? True/False/None"""
    result = True
    for test, pol in lexical_conditions(node, stop):
        v = eval_test(test, atom)
        if v is None:
            return None
        if v != pol:
            return False
    return result


def eval_with(test, assume):
    """three-valued evaluation where `assume(node)` may fix the value of ANY sub-expression (composite ones included)"""
    v = assume(test)
    if v is not None:
        return v
    if isinstance(test, ast.UnaryOp) and isinstance(test.op, ast.Not):
        v = eval_with(test.operand, assume)
        return None if v is None else (not v)
    if isinstance(test, ast.BoolOp):
        vals = [eval_with(x, assume) for x in test.values]
        if isinstance(test.op, ast.And):
            if any(x is False for x in vals):
                return False
            return True if all(x is True for x in vals) else None
        if any(x is True for x in vals):
            return True
        return False if all(x is False for x in vals) else None
    if isinstance(test, ast.Constant):
        return bool(test.value)
    return None


def edge_forces(edge, preds):
    """Does crossing this branch edge imply that at least one of the facts holds?  A fact is a predicate pred(expr, polarity) meaning
    "expr evaluated to polarity".  Decided semantically: assume every listed fact is false (its expression has the opposite value), leave
    everything else unknown, and see whether the test is then forced to the other branch.  Independent of how the condition is spelled
    (not / and / or / De Morgan forms, which branch is the else part)."""
    if edge.test is None:
        return False
    for test in (edge.tests() if hasattr(edge, "tests") else [edge.test]):
        if eval_with(test, lambda n: None) is not None:
            continue       # constant test: the edge is either always or never taken and tells nothing about the facts
        matched = []

        def assume(node):
            for pr in preds:
                if pr(node, True):
                    matched.append(node)
                    return False
                if pr(node, False):
                    matched.append(node)
                    return True
            return None
        v = eval_with(test, assume)
        if bool(matched) and v is not None and v != edge.polarity:
            return True
    return False


def strip_not(test):
    """(core test, polarity) after peeling `not` wrappers"""
    pol = True
    while isinstance(test, ast.UnaryOp) and isinstance(test.op, ast.Not):
        test = test.operand
        pol = not pol
    return test, pol


def isinstance_atom(test):
    """isinstance(<Name>, <classes>) -> (name, [class exprs]) else None"""
    if isinstance(test, ast.Call) and isinstance(test.func, ast.Name) and test.func.id == "isinstance" and len(test.args) == 2 \
            and isinstance(test.args[0], ast.Name):
        c = test.args[1]
        classes = list(c.elts) if isinstance(c, ast.Tuple) else [c]
        return test.args[0].id, classes
    return None


def flag_test_atom(test):
    """<expr> & <FLAG>  -> (left expr, flag expr) else None"""
    if isinstance(test, ast.BinOp) and isinstance(test.op, ast.BitAnd):
        return test.left, test.right
    return None
