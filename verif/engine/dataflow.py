"""
G. Reaching definitions of local names over the CFG (flow-sensitive, per function).
"""
import ast
from .cfg import walk_no_nested


class Def:
    __slots__ = ("name", "node", "kind", "value", "index", "id")

    def __init__(self, name, node, kind, value=None, index=None):
        self.name = name
        self.node = node      # CFG node (None for parameters)
        self.kind = kind      # param | assign | unpack | aug | for | with | except | import | def | del | walrus
        self.value = value    # ast expr the value derives from (assign: the value; unpack: the tuple value; for: the iterable; ...)
        self.index = index    # position inside an unpacking target, else None
        self.id = None

    def __repr__(self):
        return "<Def %s %s L%s>" % (self.name, self.kind, self.node.lineno if self.node is not None else "-")


def _target_defs(target, node, kind, value, out, index=None):
    if isinstance(target, ast.Name):
        out.append(Def(target.id, node, kind, value, index))
    elif isinstance(target, (ast.Tuple, ast.List)):
        for i, elt in enumerate(target.elts):
            k = "unpack" if kind == "assign" else kind
            _target_defs(elt, node, k, value, out, i if index is None else index)
    elif isinstance(target, ast.Starred):
        _target_defs(target.value, node, kind, value, out, index)
    # attribute / subscript targets are not local definitions


def node_defs(node):
    """local-name definitions made by one CFG node"""
    st = node.ast
    out = []
    if st is None:
        return out
    k = node.kind
    if k == "stmt":
        if isinstance(st, ast.Assign):
            for t in st.targets:
                _target_defs(t, node, "assign", st.value, out)
        elif isinstance(st, ast.AnnAssign):
            if st.value is not None:
                _target_defs(st.target, node, "assign", st.value, out)
        elif isinstance(st, ast.AugAssign):
            if isinstance(st.target, ast.Name):
                out.append(Def(st.target.id, node, "aug", st))
        elif isinstance(st, (ast.Import, ast.ImportFrom)):
            for a in st.names:
                out.append(Def((a.asname or a.name).split(".")[0], node, "import", st))
        elif isinstance(st, (ast.FunctionDef, ast.ClassDef)):
            out.append(Def(st.name, node, "def", st))
        elif isinstance(st, ast.Delete):
            for t in st.targets:
                if isinstance(t, ast.Name):
                    out.append(Def(t.id, node, "del", None))
    elif k == "for":
        _target_defs(st.target, node, "for", st.iter, out)
    elif k == "with":
        for it in st.items:
            if it.optional_vars is not None:
                _target_defs(it.optional_vars, node, "with", it.context_expr, out)
    elif k == "handler":
        if st.name:
            out.append(Def(st.name, node, "except", st))
    # walrus anywhere in the node's own expressions
    from .cfg import stmt_exprs
    for e in stmt_exprs(node):
        for n in walk_no_nested(e):
            if isinstance(n, ast.NamedExpr) and isinstance(n.target, ast.Name):
                out.append(Def(n.target.id, node, "walrus", n.value))
    return out


class ReachingDefs:
    def __init__(self, cfg, params=()):
        self.cfg = cfg
        self.defs = []
        self.param_defs = {}
        for p in params:
            d = Def(p, None, "param")
            self._add(d)
            self.param_defs[p] = d
        self.gen = {}
        for n in cfg.nodes:
            ds = node_defs(n)
            for d in ds:
                self._add(d)
            self.gen[n.id] = ds
        self.by_name = {}
        for d in self.defs:
            self.by_name.setdefault(d.name, set()).add(d.id)
        self._solve()

    def _add(self, d):
        d.id = len(self.defs)
        self.defs.append(d)

    def _solve(self):
        cfg = self.cfg
        IN = {n.id: set() for n in cfg.nodes}
        OUT = {n.id: set() for n in cfg.nodes}
        IN[cfg.entry.id] = set(d.id for d in self.param_defs.values())
        OUT[cfg.entry.id] = set(IN[cfg.entry.id])
        work = list(cfg.nodes)
        inwork = set(n.id for n in work)
        while work:
            n = work.pop(0)
            inwork.discard(n.id)
            if n is not cfg.entry:
                acc = set()
                for e in n.pred:
                    if e.kind == "exc":
                        acc |= IN[e.src.id] | OUT[e.src.id]
                    else:
                        acc |= OUT[e.src.id]
                IN[n.id] = acc
            out = set(IN[n.id])
            for d in self.gen[n.id]:
                out -= self.by_name[d.name]
            for d in self.gen[n.id]:
                out.add(d.id)
            if out != OUT[n.id]:
                OUT[n.id] = out
                for e in n.succ:
                    if e.dst.id not in inwork:
                        inwork.add(e.dst.id)
                        work.append(e.dst)
            elif n is not cfg.entry:
                # IN may have changed for exc successors even if OUT did not
                for e in n.succ:
                    if e.kind == "exc" and e.dst.id not in inwork:
                        pass
        # one more pass to stabilise exc-edge contributions (IN of src feeding IN of dst)
        changed = True
        while changed:
            changed = False
            for n in cfg.nodes:
                if n is cfg.entry:
                    continue
                acc = set()
                for e in n.pred:
                    if e.kind == "exc":
                        acc |= IN[e.src.id] | OUT[e.src.id]
                    else:
                        acc |= OUT[e.src.id]
                if acc != IN[n.id]:
                    IN[n.id] = acc
                    changed = True
                out = set(acc)
                for d in self.gen[n.id]:
                    out -= self.by_name[d.name]
                for d in self.gen[n.id]:
                    out.add(d.id)
                if out != OUT[n.id]:
                    OUT[n.id] = out
                    changed = True
        self.IN = IN
        self.OUT = OUT

    def reaching(self, node, name):
        """definitions of `name` that reach the entry of `node`"""
        return [self.defs[i] for i in sorted(self.IN[node.id]) if self.defs[i].name == name]

    def reaching_out(self, node, name):
        return [self.defs[i] for i in sorted(self.OUT[node.id]) if self.defs[i].name == name]


def possibly_undefined(cfg, fn_node, params):
    """[(name, cfg node, ast.Name)] for loads of function locals that some path from the entry reaches without any assignment
    (or after a `del`).  Locals = names stored anywhere in the function body (not nested scopes), minus global/nonlocal names."""
    from .cfg import stmt_exprs
    declared = set()
    stored = set()
    for n in walk_no_nested(fn_node):
        if isinstance(n, (ast.Global, ast.Nonlocal)):
            declared |= set(n.names)
        elif isinstance(n, ast.Name) and isinstance(n.ctx, (ast.Store, ast.Del)):
            stored.add(n.id)
        elif isinstance(n, ast.ExceptHandler) and n.name:
            stored.add(n.name)
        elif isinstance(n, (ast.Import, ast.ImportFrom)):
            for a in n.names:
                stored.add((a.asname or a.name).split(".")[0])
        elif isinstance(n, (ast.FunctionDef, ast.ClassDef, ast.AsyncFunctionDef)) and n is not fn_node:
            stored.add(n.name)
    # names bound only inside comprehensions are not function locals
    comp_only = set()
    for n in walk_no_nested(fn_node):
        if isinstance(n, (ast.ListComp, ast.SetComp, ast.DictComp, ast.GeneratorExp)):
            for g in n.generators:
                for x in ast.walk(g.target):
                    if isinstance(x, ast.Name):
                        comp_only.add(x.id)
    locals_ = stored - declared - set(params)
    rd = ReachingDefs(cfg, list(params) + sorted(locals_))
    out = []
    for node in cfg.nodes:
        if node.id not in cfg.live():
            continue
        for e in stmt_exprs(node):
            comp_bound = set()
            for x in walk_no_nested(e):
                if isinstance(x, (ast.ListComp, ast.SetComp, ast.DictComp, ast.GeneratorExp)):
                    for g in x.generators:
                        for y in ast.walk(g.target):
                            if isinstance(y, ast.Name):
                                comp_bound.add(y.id)
            for x in walk_no_nested(e):
                if isinstance(x, ast.Name) and isinstance(x.ctx, ast.Load) and x.id in locals_ and x.id not in comp_bound:
                    defs = rd.reaching(node, x.id)
                    if any(d.kind in ("param", "del") for d in defs):
                        out.append((x.id, node, x))
    return out


_MODULE_ATTRS = frozenset(("__name__", "__file__", "__doc__", "__package__", "__spec__", "__loader__", "__builtins__", "__debug__", "__class__", "__path__",
                           "__annotations__", "__dict__", "__qualname__", "__module__"))


def unbound_names(source, filename="<module>"):
    """names that are read somewhere in the module but bound nowhere: not a local or a parameter of the reading scope or of an enclosing function, not assigned /
    imported / defined at module level (on any path), not declared global and assigned in some function, not a builtin. Such a read raises NameError whenever it is
    reached. Exact (no path reasoning): decided with the compiler's own symbol tables. Returns [(name, lineno of the scope, scope name)]; None for a module with `import *`."""
    import symtable
    import builtins
    import ast as _ast
    tree = _ast.parse(source, filename)
    if any(isinstance(n, _ast.ImportFrom) and any(a.name == "*" for a in n.names) for n in _ast.walk(tree)):
        return None
    top = symtable.symtable(source, filename, "exec")
    bound = set(dir(builtins)) | set(_MODULE_ATTRS)
    for s in top.get_symbols():
        if s.is_assigned() or s.is_imported() or s.is_namespace() or s.is_parameter():
            bound.add(s.get_name())

    def scopes(t):
        for c in t.get_children():
            yield c
            yield from scopes(c)
    for sc in scopes(top):
        for s in sc.get_symbols():
            if s.is_declared_global() and (s.is_assigned() or s.is_imported() or s.is_namespace()):
                bound.add(s.get_name())
    out = []
    for sc in [top] + list(scopes(top)):
        for s in sc.get_symbols():
            if not s.is_referenced():
                continue
            if sc is top:
                is_glob = True
            else:
                is_glob = s.is_global()
            if is_glob and s.get_name() not in bound:
                out.append((s.get_name(), sc.get_lineno(), sc.get_name()))
    return sorted(set(out))
