"""
Analysis context (program representations built once per run) and the small AST helpers the rules share.
"""
import ast
from .model import Program, AnalysisError, dotted, mangle, fold
from .cfg import CFG, facts_of, walk_no_nested, calls_in, stmt_exprs, no_exc
from .dataflow import ReachingDefs
from .callgraph import CallGraph
from .escape import Escape


class Ctx:
    def __init__(self, repo_root):
        self.repo_root = repo_root
        self.p = Program(repo_root)
        self.cg = CallGraph(self.p)
        self._escape = None
        self._cfg = {}
        self._rd = {}
        self.consulted = set()      # anchor functions a rule asked for (reported in the evidence)

    @property
    def escape(self):
        if self._escape is None:
            self._escape = Escape(self.p, self.cg)
            self._escape.solve()
        return self._escape

    def fn(self, qualname):
        f = self.p.fn(qualname)
        self.consulted.add(f.qualname)
        return f

    def cfg(self, f):
        self.consulted.add(f.qualname)
        c = self._cfg.get(f.qualname)
        if c is None:
            c = CFG(f.node, f.qualname)
            self._cfg[f.qualname] = c
        return c

    def rd(self, f):
        r = self._rd.get(f.qualname)
        if r is None:
            r = ReachingDefs(self.cfg(f), f.params)
            self._rd[f.qualname] = r
        return r

    def exc_filter(self, f):
        """edge filter for path queries: keeps an exception edge only if its source statement can raise an Exception
        according to the escape analysis (explicit raise/assert, or a call with a non-empty escape set)"""
        es = self.escape
        cache = {}

        def ok(edge):
            if edge.kind != "exc":
                return True
            src = edge.src
            r = cache.get(src.id)
            if r is None:
                r = False
                if src.kind == "reraise" or isinstance(src.ast, (ast.Raise, ast.Assert)) and src.kind in ("stmt", "test"):
                    r = True
                else:
                    for c in calls_in(src):
                        if es.call(c, {"f": f, "record": False, "caught": None, "vars": {}}):
                            r = True
                            break
                    if not r and es._stringified_exceptions(stmt_exprs(src), {"f": f}):
                        r = True
                cache[src.id] = r
            return r
        return ok

    # ------------------------------------------------------------------ call helpers
    def call_targets(self, call, f):
        return self.cg.resolve_call(call, f)

    def calls_to(self, f, qualnames):
        """ast.Call nodes in f that may resolve to one of the package functions `qualnames` (typed resolution)"""
        if isinstance(qualnames, str):
            qualnames = {qualnames}
        out = []
        for call, tgs in self.cg.calls_of(f):
            if any(t.kind == "fn" and t.fn.qualname in qualnames for t in tgs):
                out.append(call)
        return out

    def is_call_to(self, call, f, qualnames):
        if isinstance(qualnames, str):
            qualnames = {qualnames}
        return any(t.kind == "fn" and t.fn.qualname in qualnames for t in self.cg.resolve_call(call, f))

    def ext_name(self, call, f):
        """dotted external name if the call resolves to an external callable, else None"""
        for t in self.cg.resolve_call(call, f):
            if t.kind == "ext":
                return t.name
        return None

    def resolves_to_object(self, expr, f, qualified):
        """does the Name/Attribute expr denote the module-level object / class / function `qualified`?"""
        d = dotted(expr)
        if not d:
            return False
        if isinstance(expr, ast.Name) and self.cg.is_local(f, expr.id) and expr.id not in getattr(f, "_local_imports", {}):
            return False
        r = self.p.resolve_dotted(f.module, d, f)
        return bool(r) and r[1] == qualified

    def const(self, expr, f):
        """fold a constant expression in the module of f: (ok, value)"""
        return fold(self.p, f.module, expr)

    # ------------------------------------------------------------------ statement / node helpers
    def node_of(self, f, astnode):
        """CFG nodes evaluating the statement that contains `astnode` (all copies)"""
        st = enclosing_stmt(astnode)
        cfg = self.cfg(f)
        nodes = cfg.nodes_for(st)
        if not nodes and isinstance(st, ast.ExceptHandler):
            nodes = cfg.nodes_for(st)
        return nodes

    def loc(self, f, node):
        return f.loc(node)


def locals_assigned(f, pred):
    """names of the locals of f that are assigned (plain `name = value`) a value satisfying pred(value)"""
    out = []
    for n in walk_no_nested(f.node):
        if isinstance(n, ast.Assign) and pred(n.value):
            for t in n.targets:
                if isinstance(t, ast.Name) and t.id not in out:
                    out.append(t.id)
    return out


def conditional_in_stmt(node):
    """Is `node` evaluated only conditionally *within its own statement*?  (inside the body/orelse of a conditional expression, a non-first
    operand of and/or, a comprehension, or a lambda) — the CFG has one node per statement, so dominance of the statement says nothing about it."""
    child = node
    n = getattr(node, "_parent", None)
    while n is not None and not isinstance(n, (ast.stmt, ast.ExceptHandler)):
        if isinstance(n, ast.IfExp) and child is not n.test:
            return True
        if isinstance(n, ast.BoolOp) and n.values and n.values[0] is not child:
            return True
        if isinstance(n, (ast.Lambda, ast.ListComp, ast.SetComp, ast.DictComp, ast.GeneratorExp)):
            if not (isinstance(n, (ast.ListComp, ast.SetComp, ast.DictComp, ast.GeneratorExp)) and n.generators and n.generators[0].iter is child):
                return True
        child = n
        n = getattr(n, "_parent", None)
    return False


def enclosing_stmt(node):
    """the statement (or except handler / compound header) whose CFG node evaluates `node`"""
    n = node
    while n is not None:
        if isinstance(n, ast.stmt) or isinstance(n, ast.ExceptHandler):
            return n
        n = getattr(n, "_parent", None)
    return None


def header_owner(node):
    """For an expression inside a compound statement header (if/while test, for iter, with items) returns that
    compound statement; for expressions in simple statements returns the simple statement."""
    return enclosing_stmt(node)


def attr_chain(expr):
    return dotted(expr)


def unparse(node, limit=90):
    try:
        s = ast.unparse(node)
    except Exception:
        s = "<%s>" % type(node).__name__
    s = " ".join(s.split())
    return s if len(s) <= limit else s[:limit - 3] + "..."


def enclosing_withs(node):
    out = []
    n = getattr(node, "_parent", None)
    child = node
    while n is not None and not isinstance(n, (ast.FunctionDef, ast.Lambda, ast.ClassDef)):
        if isinstance(n, ast.With) and child in n.body:
            out.append(n)
        child = n
        n = getattr(n, "_parent", None)
    return out


def in_lock_region(node, lock_chain):
    """innermost `with <lock_chain>:` statement that lexically contains the node (body only), or None"""
    for w in enclosing_withs(node):
        for it in w.items:
            if dotted(it.context_expr) == lock_chain:
                return w
    return None


def enclosing_loops(node, stop):
    """loop statements (For/While) containing node, inside function node `stop`"""
    out = []
    n = getattr(node, "_parent", None)
    child = node
    while n is not None and n is not stop:
        if isinstance(n, (ast.For, ast.While)) and (child in n.body):
            out.append(n)
        child = n
        n = getattr(n, "_parent", None)
    return out


def enclosing_trys(node, stop):
    """[(Try, part)] where part in body|handler|orelse|finalbody, innermost first"""
    out = []
    n = getattr(node, "_parent", None)
    child = node
    while n is not None and n is not stop:
        if isinstance(n, ast.Try):
            if child in n.body:
                out.append((n, "body"))
            elif child in n.orelse:
                out.append((n, "orelse"))
            elif child in n.finalbody:
                out.append((n, "finalbody"))
            else:
                out.append((n, "handler"))
        child = n
        n = getattr(n, "_parent", None)
    return out


def names_in(expr):
    return {n.id for n in ast.walk(expr) if isinstance(n, ast.Name)}


def is_none(expr):
    return isinstance(expr, ast.Constant) and expr.value is None


def compare_parts(test):
    """(left, op, right) for a single-operator Compare else None"""
    if isinstance(test, ast.Compare) and len(test.ops) == 1:
        return test.left, test.ops[0], test.comparators[0]
    return None


def same_expr(a, b):
    return ast.dump(a) == ast.dump(b)


def stores_in(fnode):
    """yield (stmt, target_expr, kind) for every store/delete target in a function body (no nested defs):
    kind in assign|aug|del|for|with"""
    for n in walk_no_nested(fnode):
        if isinstance(n, ast.Assign):
            for t in n.targets:
                for tt in _flatten(t):
                    yield n, tt, "assign"
        elif isinstance(n, ast.AnnAssign) and n.value is not None:
            yield n, n.target, "assign"
        elif isinstance(n, ast.AugAssign):
            yield n, n.target, "aug"
        elif isinstance(n, ast.Delete):
            for t in n.targets:
                yield n, t, "del"
        elif isinstance(n, ast.For):
            for tt in _flatten(n.target):
                yield n, tt, "for"
        elif isinstance(n, ast.With):
            for it in n.items:
                if it.optional_vars is not None:
                    for tt in _flatten(it.optional_vars):
                        yield n, tt, "with"


def _flatten(t):
    if isinstance(t, (ast.Tuple, ast.List)):
        for e in t.elts:
            yield from _flatten(e)
    elif isinstance(t, ast.Starred):
        yield from _flatten(t.value)
    else:
        yield t
