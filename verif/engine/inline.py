"""
Normal form "read through new single-use helpers" (the inverse of Extract Method).

The rules speak about the functions of the confirmed tree (vocabulary.KNOWN_FUNCTIONS). A function that is not in that vocabulary, is plain (no decorator, no
generator, no *args/**kwargs/defaults, no global/nonlocal), is referenced exactly once in the whole package - as a direct call `helper(...)` / `self.helper(...)` that is a
whole statement (`helper(..)`, `x = helper(..)`, `a, b = helper(..)`, `return helper(..)`) in a function of the same module / class - and returns only with its last statement,
is a piece of its caller that was given a name: its body is put back where the call stands (parameters bound to the arguments, its own locals kept apart from the
caller's), and the definition is dropped. Everything else is left exactly as written. The rewrite happens on the parsed trees when the program model is loaded, before
anything is analysed; on the confirmed tree it does nothing (every function is in the vocabulary).
"""
import ast
import copy

from .vocabulary import KNOWN_FUNCTIONS

_BANNED_IN_HELPER = (ast.Yield, ast.YieldFrom, ast.Await, ast.Global, ast.Nonlocal, ast.FunctionDef, ast.AsyncFunctionDef, ast.ClassDef)


def _functions(tree, modname):
    """(qualname, node, owner_body, class_node_or_None) for module-level functions and methods of module-level classes"""
    for st in tree.body:
        if isinstance(st, ast.FunctionDef):
            yield modname + "." + st.name, st, tree.body, None
        elif isinstance(st, ast.ClassDef):
            for m in st.body:
                if isinstance(m, ast.FunctionDef):
                    yield modname + "." + st.name + "." + m.name, m, st.body, st


def _plain_params(fn):
    a = fn.args
    if a.vararg or a.kwarg or a.kwonlyargs or a.defaults or a.kw_defaults or a.posonlyargs:
        return None
    return [x.arg for x in a.args]


def _body_without_doc(fn):
    body = list(fn.body)
    if body and isinstance(body[0], ast.Expr) and isinstance(body[0].value, ast.Constant) and isinstance(body[0].value.value, str):
        body = body[1:]
    return body


def _returns_only_last(body):
    rets = [x for st in body for x in ast.walk(st) if isinstance(x, ast.Return)]
    if not rets:
        return True
    return len(rets) == 1 and body and body[-1] is rets[0]


def _names(nodes, ctx=None):
    out = set()
    for n in nodes:
        for x in ast.walk(n):
            if isinstance(x, ast.Name) and (ctx is None or isinstance(x.ctx, ctx)):
                out.add(x.id)
            elif isinstance(x, ast.ExceptHandler) and x.name and ctx in (None, ast.Store):
                out.add(x.name)
            elif isinstance(x, ast.arg) and ctx in (None, ast.Store):
                out.add(x.arg)
            elif isinstance(x, (ast.Import, ast.ImportFrom)) and ctx in (None, ast.Store):
                for a in x.names:
                    out.add((a.asname or a.name).split(".")[0])
    return out


class _Rename(ast.NodeTransformer):
    def __init__(self, mapping):
        self.m = mapping

    def visit_Name(self, node):
        if node.id in self.m:
            new = self.m[node.id]
            if isinstance(new, str):
                node.id = new
                return node
            if isinstance(node.ctx, ast.Load):
                return ast.copy_location(copy.deepcopy(new), node)
        return node

    def visit_ExceptHandler(self, node):
        if node.name in self.m and isinstance(self.m[node.name], str):
            node.name = self.m[node.name]
        self.generic_visit(node)
        return node


def _pure_chain(e):
    while isinstance(e, ast.Attribute):
        e = e.value
    return isinstance(e, ast.Name)


def _chain_root(e):
    while isinstance(e, ast.Attribute):
        e = e.value
    return e.id


def _chain_attrs(e):
    out = set()
    while isinstance(e, ast.Attribute):
        out.add(e.attr)
        e = e.value
    return out


def _stmt_lists(fn):
    for n in ast.walk(fn):
        for field in ("body", "orelse", "finalbody"):
            sub = getattr(n, field, None)
            if isinstance(sub, list) and sub and isinstance(sub[0], ast.stmt):
                yield sub
        if isinstance(n, ast.ExceptHandler):
            yield n.body


def _inside_try_body(fn, stmt):
    """is stmt (transitively) inside the body of a try statement of fn that has handlers (so that code of fn runs after an exception raised at stmt)?"""
    def find(body, in_try):
        for st in body:
            if st is stmt:
                return in_try
            if isinstance(st, ast.Try):
                r = find(st.body, in_try or bool(st.handlers))
                if r is not None:
                    return r
                for part in [h.body for h in st.handlers] + [st.orelse, st.finalbody]:
                    r = find(part, in_try)
                    if r is not None:
                        return r
            else:
                for field in ("body", "orelse", "finalbody"):
                    sub = getattr(st, field, None)
                    if isinstance(sub, list) and sub and isinstance(sub[0], ast.stmt):
                        r = find(sub, in_try)
                        if r is not None:
                            return r
        return None
    return bool(find(fn.body, False))


def _can_raise_after_store(body, name):
    """can something raise after `name` was (re)bound in this helper body? (a store inside a loop, or a call / subscript / attribute access in a later statement)"""
    for st in body:
        for loop in [x for x in ast.walk(st) if isinstance(x, (ast.For, ast.While))]:
            if any(isinstance(n, ast.Name) and n.id == name and isinstance(n.ctx, ast.Store) for n in ast.walk(loop)):
                return True
    flat = []

    def walk(stmts):
        for st in stmts:
            flat.append(st)
            for field in ("body", "orelse", "finalbody"):
                sub = getattr(st, field, None)
                if isinstance(sub, list) and sub and isinstance(sub[0], ast.stmt):
                    walk(sub)
            for h in getattr(st, "handlers", []):
                walk(h.body)
    walk(body)
    seen_store = False
    for st in flat:
        own = [n for n in ast.iter_child_nodes(st) if not isinstance(n, ast.stmt)]
        if seen_store and any(isinstance(x, (ast.Call, ast.Subscript)) for n in own for x in ast.walk(n)):
            return True
        if any(isinstance(x, ast.Name) and x.id == name and isinstance(x.ctx, ast.Store) for n in own for x in ast.walk(n)):
            seen_store = True
    return False


def _dead_after(fn, stmt, name):
    """no read of `name` can follow `stmt` inside fn: stmt is in no loop, and no statement after it (in its own list or in an enclosing one) mentions the name"""
    def find(body, trail):
        for i, st in enumerate(body):
            if st is stmt:
                return trail + [(body, i, None)]
            for field in ("body", "orelse", "finalbody"):
                sub = getattr(st, field, None)
                if isinstance(sub, list) and sub and isinstance(sub[0], ast.stmt):
                    r = find(sub, trail + [(body, i, st)])
                    if r:
                        return r
            for h in getattr(st, "handlers", []):
                r = find(h.body, trail + [(body, i, st)])
                if r:
                    return r
        return None
    path = find(fn.body, [])
    if not path:
        return False
    for body, i, owner in path:
        if isinstance(owner, (ast.For, ast.While)):
            return False
        for later in body[i + 1:]:
            if name in _names([later]):
                return False
        if isinstance(owner, ast.Try):
            # handlers / else / finally of an enclosing try run after (part of) its body
            inner = path[path.index((body, i, owner)) + 1][0]
            for part in ([h.body for h in owner.handlers] + [owner.orelse, owner.finalbody]):
                if part is not inner and any(name in _names([x]) for x in part):
                    return False
    return True


def inline_new_helpers(modules):
    """modules: {modname: ast.Module}; rewrites the trees in place; returns the list of (helper qualname, caller qualname) that were read through"""
    done = []
    for _ in range(2000):
        changed = False
        # every reference to a bare name / attribute name in the package (to establish "referenced exactly once")
        per_module = {}
        for mn, tree in modules.items():
            nr, ar = {}, {}
            for x in ast.walk(tree):
                if isinstance(x, ast.Name) and isinstance(x.ctx, ast.Load):
                    nr[x.id] = nr.get(x.id, 0) + 1
                elif isinstance(x, ast.Attribute):
                    ar[x.attr] = ar.get(x.attr, 0) + 1
                elif isinstance(x, ast.alias):
                    nr[x.name.split(".")[-1]] = nr.get(x.name.split(".")[-1], 0) + 1
                elif isinstance(x, ast.Constant) and isinstance(x.value, str) and x.value.isidentifier():
                    ar[x.value] = ar.get(x.value, 0) + 1       # getattr(obj, "name") / __all__
                    nr[x.value] = nr.get(x.value, 0) + 1
            per_module[mn] = (nr, ar)
        for modname, tree in modules.items():
            fns = list(_functions(tree, modname))

            class _Refs:
                """references to a name: in its own module for names that are private by convention (leading underscore), in the whole package otherwise"""
                def __init__(self, idx):
                    self.idx = idx

                def get(self, name, default=0):
                    if name.startswith("_"):
                        return per_module[modname][self.idx].get(name, 0)
                    return sum(pm[self.idx].get(name, 0) for pm in per_module.values())
            name_refs, attr_refs = _Refs(0), _Refs(1)
            for qn, helper, owner_body, cls in fns:
                is_static = len(helper.decorator_list) == 1 and isinstance(helper.decorator_list[0], ast.Name) and helper.decorator_list[0].id == "staticmethod" and cls is not None
                if qn in KNOWN_FUNCTIONS or (helper.decorator_list and not is_static):
                    continue
                if helper.name.startswith("__") and helper.name.endswith("__"):
                    continue
                params = _plain_params(helper)
                if params is None:
                    continue
                hbody = _body_without_doc(helper)
                if not hbody or any(isinstance(x, _BANNED_IN_HELPER) and x is not helper for st in hbody for x in ast.walk(st)):
                    continue
                # a helper that returns from several places can only stand where a `return helper(..)` stood (its returns then are the caller's returns)
                tail_only = not _returns_only_last(hbody)
                is_method = cls is not None
                if is_method and not params and not is_static:
                    continue
                # the single call site
                site = None
                sites = []
                if is_method:
                    nrefs = attr_refs.get(helper.name, 0)
                    if not (1 <= nrefs <= 4) or name_refs.get(helper.name, 0) != 0:
                        continue
                    callers = [(q2, f2) for q2, f2, _, c2 in fns if c2 is cls and f2 is not helper]
                else:
                    nrefs = name_refs.get(helper.name, 0)
                    if not (1 <= nrefs <= 4) or attr_refs.get(helper.name, 0) != 0:
                        continue
                    callers = [(q2, f2) for q2, f2, _, c2 in fns if f2 is not helper]
                for q2, caller in callers:
                    cparams = _plain_params(caller) if is_method else None
                    for body in _stmt_lists(caller):
                        for i, st in enumerate(body):
                            call = None
                            if isinstance(st, ast.Expr) and isinstance(st.value, ast.Call):
                                call = st.value
                            elif isinstance(st, ast.Assign) and len(st.targets) == 1 and isinstance(st.value, ast.Call):
                                call = st.value
                            elif isinstance(st, ast.Return) and isinstance(st.value, ast.Call):
                                call = st.value
                            if call is None:
                                continue
                            if is_method:
                                recv_ok = isinstance(call.func, ast.Attribute) and call.func.attr == helper.name and isinstance(call.func.value, ast.Name) \
                                    and ((caller.args.args and call.func.value.id == caller.args.args[0].arg and not caller.decorator_list) or
                                         (is_static and call.func.value.id == cls.name))
                                if not recv_ok:
                                    continue
                            else:
                                if not (isinstance(call.func, ast.Name) and call.func.id == helper.name):
                                    continue
                            if not any(x[4] is st for x in sites):
                                sites.append((q2, caller, body, i, st, call))
                # every reference to the helper must be such a call (a helper shared by a few places of its class / module is put back at each of them, one per
                # round; the definition goes with the last one)
                if len(sites) != nrefs or (nrefs > 1 and sum(1 for st_ in hbody for _ in ast.walk(st_)) > 400):
                    continue
                if tail_only and not all(isinstance(x[4], ast.Return) for x in sites):
                    continue
                site = sites[0]
                q2, caller, body, i, st, call = site
                if any(isinstance(a, ast.Starred) for a in call.args) or any(k.arg is None for k in call.keywords):
                    continue
                formal = params[1:] if (is_method and not is_static) else params
                actual = {}
                if len(call.args) > len(formal):
                    continue
                for p_, a_ in zip(formal, call.args):
                    actual[p_] = a_
                ok = True
                for k in call.keywords:
                    if k.arg not in formal or k.arg in actual:
                        ok = False
                    actual[k.arg] = k.value
                if not ok or set(actual) != set(formal):
                    continue
                new_body = copy.deepcopy(hbody)
                ret = None
                if not tail_only and new_body and isinstance(new_body[-1], ast.Return):
                    ret = new_body.pop().value
                hstores = _names(new_body, ast.Store)
                caller_names = _names([caller]) - {helper.name}
                taken = set(caller_names) | _names(new_body) | set(params)
                mapping = {}
                pre = []

                def fresh(base):
                    k, nm = 1, "%s__%s" % (base, helper.name.strip("_"))
                    while nm in taken:
                        k += 1
                        nm = "%s__%s%d" % (base, helper.name.strip("_"), k)
                    taken.add(nm)
                    return nm
                if is_method and not is_static:
                    mapping[params[0]] = call.func.value.id
                # targets the result is assigned to (plain names), by position
                targets = []
                if isinstance(st, ast.Assign):
                    tg = st.targets[0]
                    targets = [t.id if isinstance(t, ast.Name) else None for t in (tg.elts if isinstance(tg, ast.Tuple) else [tg])]
                ret_names = []
                if ret is not None:
                    ret_names = [e.id if isinstance(e, ast.Name) else None for e in (ret.elts if isinstance(ret, ast.Tuple) else [ret])]
                arg_names = {p_: a_.id for p_, a_ in actual.items() if isinstance(a_, ast.Name)}
                for p_ in formal:
                    a_ = actual[p_]
                    if isinstance(a_, ast.Name) and p_ not in hstores:
                        mapping[p_] = a_.id                # read-only parameter bound to a variable: the variable itself
                    elif isinstance(a_, ast.Name) and p_ in hstores and len(targets) == len(ret_names) and any(r == p_ and t == a_.id for r, t in zip(ret_names, targets)) \
                            and not (_inside_try_body(caller, st) and _can_raise_after_store(new_body, p_)):
                        # x = helper(x): the in-out variable itself - unless a handler of the caller can see it afterwards: when the helper raises half-way the caller's
                        # x keeps its OLD value (the assignment never happens), which updating x in place would hide
                        mapping[p_] = a_.id
                    elif isinstance(a_, ast.Constant) and p_ not in hstores:
                        mapping[p_] = a_
                    elif p_ not in hstores and _pure_chain(a_) and _chain_root(a_) not in hstores and _chain_root(a_) not in targets and \
                            not (_chain_attrs(a_) & {x.attr for s_ in new_body for x in ast.walk(s_) if isinstance(x, ast.Attribute) and isinstance(x.ctx, (ast.Store, ast.Del))}):
                        mapping[p_] = a_                   # helper(self.busy): a read-only parameter bound to an attribute nobody re-binds meanwhile is that attribute
                    elif isinstance(a_, ast.Name) and p_ in hstores and _dead_after(caller, st, a_.id) and list(arg_names.values()).count(a_.id) == 1 and not (_inside_try_body(caller, st) and _can_raise_after_store(new_body, p_)):
                        mapping[p_] = a_.id                # the helper reassigns its parameter, and the caller never looks at that variable again
                    else:
                        nm = fresh(p_)
                        mapping[p_] = nm
                        pre.append(ast.copy_location(ast.Assign(targets=[ast.Name(id=nm, ctx=ast.Store())], value=a_), st))
                same_shape = ret is not None and targets and len(targets) == len(ret_names) and all(t is not None for t in targets) and all(r is not None for r in ret_names)
                for loc in sorted(hstores - set(params)):
                    if same_shape and loc in ret_names and ret_names.count(loc) == 1:
                        t = targets[ret_names.index(loc)]
                        # the helper's local becomes the caller's target, unless the caller's old value of that target is still read inside the helper through a parameter
                        if t not in arg_names.values() and (t not in _names(new_body) or t == loc):
                            mapping[loc] = t
                            continue
                    if loc in caller_names:
                        mapping[loc] = fresh(loc)
                r = _Rename(mapping)
                new_body = [r.visit(s_) for s_ in new_body]
                tail = []
                if ret is not None:
                    ret = r.visit(ast.Expression(body=ret)).body
                if isinstance(st, ast.Assign):
                    value = ret if ret is not None else ast.Constant(None)
                    tnames = targets
                    rn = [e.id if isinstance(e, ast.Name) else None for e in (value.elts if isinstance(value, ast.Tuple) else [value])]
                    if not (tnames and len(tnames) == len(rn) and all(a is not None and a == b for a, b in zip(tnames, rn))):
                        tail.append(ast.copy_location(ast.Assign(targets=st.targets, value=value), st))
                elif isinstance(st, ast.Return):
                    tail.append(ast.copy_location(ast.Return(value=ret), st))
                elif ret is not None and not isinstance(ret, (ast.Name, ast.Constant, ast.Tuple)):
                    tail.append(ast.copy_location(ast.Expr(value=ret), st))
                if tail_only:
                    tail = [] if isinstance(new_body[-1], (ast.Return, ast.Raise)) else [ast.copy_location(ast.Return(value=None), st)]
                repl = pre + new_body + tail or [ast.copy_location(ast.Pass(), st)]
                for s_ in repl:
                    # positions: the statements now stand where the call stood (rules that compare positions, and the reports, see the call site)
                    for x in ast.walk(s_):
                        if hasattr(x, "lineno"):
                            x.lineno, x.end_lineno = st.lineno, getattr(st, "end_lineno", st.lineno)
                            x.col_offset, x.end_col_offset = st.col_offset, getattr(st, "end_col_offset", st.col_offset)
                body[i:i + 1] = repl
                if nrefs == 1:
                    owner_body.remove(helper)
                    if not owner_body:
                        owner_body.append(ast.Pass())
                done.append((qn, q2))
                changed = True
                break           # reference counts are stale now: recompute
            if changed:
                break
        if not changed:
            break
    return done
