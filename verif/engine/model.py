"""
A. Module model of the analysed package (Pyro5/**/*.py as it is on disk).

Nothing of the analysed package is imported or executed; everything is derived from `ast`.
"""
import ast
import os
import hashlib


# the library's own module-level literal constants: the vocabulary the rules and anchors use (confirmed on the analysed tree; a name that is not listed here and is
# bound once at module level to a literal is treated as an explaining constant and read through, see Program._inline_explaining_constants)
NAMED_CONSTANTS = frozenset(["DAEMON_NAME", "NAMESERVER_NAME", "MSG_CONNECT", "MSG_CONNECTOK", "MSG_CONNECTFAIL", "MSG_INVOKE", "MSG_RESULT", "MSG_PING",
                             "PROTOCOL_VERSION", "_header_format", "_magic_number", "index_page_template"])


class AnalysisError(Exception):
    """The analysis itself cannot stand (anchor vanished, unparsable file, unknown construct)."""


def mangle(cls_name, attr):
    """Python private name mangling: __x inside class C -> _C__x"""
    if attr.startswith("__") and not attr.endswith("__") and cls_name:
        return "_" + cls_name.lstrip("_") + attr
    return attr


class FunctionInfo:
    def __init__(self, qualname, node, module, cls, parent):
        self.qualname = qualname      # Pyro5.server.Daemon.handleRequest
        self.node = node              # ast.FunctionDef / ast.Lambda
        self.module = module          # ModuleInfo
        self.cls = cls                # ClassInfo or None (innermost enclosing class for methods AND nested functions)
        self.parent = parent          # enclosing FunctionInfo or None
        self.name = node.name if hasattr(node, "name") else "<lambda>"
        self.is_method = False
        self.decorators = []

    @property
    def params(self):
        a = self.node.args
        names = [x.arg for x in a.posonlyargs + a.args]
        if a.vararg:
            names.append(a.vararg.arg)
        names += [x.arg for x in a.kwonlyargs]
        if a.kwarg:
            names.append(a.kwarg.arg)
        return names

    @property
    def self_name(self):
        """name of the receiver parameter for plain methods (None for static/class methods & functions)"""
        if not self.is_method:
            return None
        if "staticmethod" in self.decorators:
            return None
        p = self.params
        return p[0] if p else None

    def loc(self, node=None):
        n = node if node is not None else self.node
        return "%s:%d" % (self.module.relpath, getattr(n, "lineno", 0))

    def __repr__(self):
        return "<fn %s>" % self.qualname


class ClassInfo:
    def __init__(self, qualname, node, module):
        self.qualname = qualname
        self.node = node
        self.module = module
        self.name = node.name
        self.base_exprs = node.bases
        self.bases = []        # resolved qualnames (package classes) or 'ext:<dotted>'
        self.methods = {}      # name -> FunctionInfo
        self.class_attrs = {}  # name -> value expr (simple assignments in the class body)

    def __repr__(self):
        return "<class %s>" % self.qualname


class ModuleInfo:
    def __init__(self, name, path, relpath, source):
        self.name = name
        self.path = path
        self.relpath = relpath
        self.source = source
        self.tree = inline_single_use_temporaries(canonical_spellings(ast.parse(source, filename=path)))
        self.imports = {}       # local name -> ('module', dotted) | ('object', dotted) | ('external', dotted)
        self.functions = {}     # qualname -> FunctionInfo (all, incl. nested & methods)
        self.classes = {}       # qualname -> ClassInfo
        self.constants = {}     # module level simple name -> value expr (last assignment)
        self.toplevel_names = set()


def canonical_spellings(tree):
    """Two spellings that mean the same are given one form before anything is analysed: `x = x op e` becomes `x op= e` (plain names and attributes, arithmetic and
    bit operators), a symmetric comparison with the constant on the left (`None is x`, `0 == n`) gets the constant on the right, `a > b` / `a >= b` are read as
    `b < a` / `b <= a`, `not (a in b)` as `a not in b`, annotations are dropped (`x: T = v` is `x = v`), and a module imported under another name gets its own name back."""
    class T(ast.NodeTransformer):
        def visit_Assign(self, node):
            self.generic_visit(node)
            if len(node.targets) == 1 and isinstance(node.targets[0], (ast.Name, ast.Attribute)) and isinstance(node.value, ast.BinOp) \
                    and isinstance(node.value.op, (ast.Add, ast.Sub, ast.BitOr, ast.BitAnd, ast.Mult)) \
                    and ast.dump(_as_load(node.value.left)) == ast.dump(_as_load(node.targets[0])):
                return ast.copy_location(ast.AugAssign(target=node.targets[0], op=node.value.op, value=node.value.right), node)
            return node

        def visit_Compare(self, node):
            self.generic_visit(node)
            if len(node.ops) == 1 and isinstance(node.ops[0], (ast.Eq, ast.NotEq, ast.Is, ast.IsNot)) and isinstance(node.left, ast.Constant) \
                    and not isinstance(node.comparators[0], ast.Constant):
                node.left, node.comparators = node.comparators[0], [node.left]
            if len(node.ops) == 1 and isinstance(node.ops[0], (ast.Gt, ast.GtE)):
                # one spelling for ordering tests: `a > b` is read as `b < a`, `a >= b` as `b <= a`
                node.left, node.comparators = node.comparators[0], [node.left]
                node.ops = [ast.Lt() if isinstance(node.ops[0], ast.Gt) else ast.LtE()]
            return node

        def visit_UnaryOp(self, node):
            # `not (a in b)` is `a not in b`, `not (a is b)` is `a is not b` (and the converse)
            self.generic_visit(node)
            if isinstance(node.op, ast.Not) and isinstance(node.operand, ast.Compare) and len(node.operand.ops) == 1 and type(node.operand.ops[0]) in _NEGATED_MEMBERSHIP:
                node.operand.ops = [_NEGATED_MEMBERSHIP[type(node.operand.ops[0])]()]
                return ast.copy_location(node.operand, node)
            return node

        def visit_AnnAssign(self, node):
            # an annotated assignment of a plain name is an assignment; a bare annotation (`x: int`) does nothing at run time
            self.generic_visit(node)
            if isinstance(node.target, ast.Name) and node.simple:
                if node.value is None:
                    return ast.copy_location(ast.Pass(), node)
                return ast.copy_location(ast.Assign(targets=[node.target], value=node.value), node)
            if node.value is not None:
                return ast.copy_location(ast.Assign(targets=[node.target], value=node.value), node)
            return node

        def visit_arg(self, node):
            node.annotation = None
            return node

        def visit_FunctionDef(self, node):
            self.generic_visit(node)
            node.returns = None
            return node
    tree = T().visit(tree)
    _canonical_module_aliases(tree)
    _drop_empty_finally(tree)
    return tree


def _drop_empty_finally(tree):
    """`try: <body> finally: pass` (no handlers, no else, a finally that does nothing) is <body>"""
    def trivial(st):
        return isinstance(st, ast.Pass) or (isinstance(st, ast.Expr) and isinstance(st.value, ast.Constant))
    for n in ast.walk(tree):
        for field in ("body", "orelse", "finalbody"):
            sub = getattr(n, field, None)
            if isinstance(sub, list) and sub and isinstance(sub[0], ast.stmt):
                i = 0
                while i < len(sub):
                    st = sub[i]
                    if isinstance(st, ast.Try) and not st.handlers and not st.orelse and st.finalbody and all(trivial(x) for x in st.finalbody):
                        sub[i:i + 1] = st.body
                        continue
                    i += 1
        if isinstance(n, ast.ExceptHandler):
            i = 0
            while i < len(n.body):
                st = n.body[i]
                if isinstance(st, ast.Try) and not st.handlers and not st.orelse and st.finalbody and all(trivial(x) for x in st.finalbody):
                    n.body[i:i + 1] = st.body
                    continue
                i += 1


_NEGATED_MEMBERSHIP = {ast.In: ast.NotIn, ast.NotIn: ast.In, ast.Is: ast.IsNot, ast.IsNot: ast.Is}


def _canonical_module_aliases(tree):
    """`import struct as st` / `from . import core as core_m`: a module imported at module level under another name is given its own name back (every use renamed),
    provided that name means nothing else anywhere in the file. Rules and hint tables then see `struct.calcsize`, `core.URI` however the import was spelled."""
    cand = {}
    for st in tree.body:
        if isinstance(st, ast.Import):
            for a in st.names:
                if a.asname and "." not in a.name and a.asname != a.name:
                    cand[a.asname] = (a, a.name)
        elif isinstance(st, ast.ImportFrom) and st.level >= 1 and st.module is None:
            for a in st.names:
                if a.asname and a.asname != a.name:
                    cand[a.asname] = (a, a.name)
    if not cand:
        return
    used = set()
    for n in ast.walk(tree):
        if isinstance(n, ast.Name):
            used.add(n.id)
        elif isinstance(n, ast.arg):
            used.add(n.arg)
        elif isinstance(n, (ast.FunctionDef, ast.ClassDef)):
            used.add(n.name)
        elif isinstance(n, (ast.Global, ast.Nonlocal)):
            used.update(n.names)
        elif isinstance(n, ast.ExceptHandler) and n.name:
            used.add(n.name)
        elif isinstance(n, ast.alias):
            if not any(n is a for a, _ in cand.values()):
                used.add((n.asname or n.name).split(".")[0])
    stored = {n.id for n in ast.walk(tree) if isinstance(n, ast.Name) and isinstance(n.ctx, (ast.Store, ast.Del))}
    ren = {}
    targets = [real for _, real in cand.values()]
    for local, (a, real) in cand.items():
        if real not in used and local not in stored and targets.count(real) == 1:
            ren[local] = real
            a.asname = None
    if ren:
        for n in ast.walk(tree):
            if isinstance(n, ast.Name) and n.id in ren:
                n.id = ren[n.id]


def _as_load(expr):
    import copy
    e = copy.deepcopy(expr)
    for x in ast.walk(e):
        if hasattr(x, "ctx"):
            x.ctx = ast.Load()
    return e


def _slot(st):
    """the returned / raised expression of a return / cause-less raise statement"""
    if isinstance(st, ast.Return):
        return st.value
    if isinstance(st, ast.Raise) and st.cause is None:
        return st.exc
    return None


def inline_single_use_temporaries(tree):
    """Normal form for the analysis: `t = <expr>` immediately followed by `if t:` / `if not t:` / a test whose and/or operands include t, where t is a plain local
    assigned exactly there and read exactly once (in that test), is the same program as `if <expr>:` (introduce/inline explaining variable). The temporary is inlined
    so that every rule sees the decision the way it is usually written. Nothing else is rewritten."""
    def scope_bodies(node):
        for n in ast.walk(node):
            for field in ("body", "orelse", "finalbody"):
                sub = getattr(n, field, None)
                if isinstance(sub, list) and sub and isinstance(sub[0], ast.stmt):
                    yield sub
            if isinstance(n, ast.ExceptHandler):
                yield n.body

    def scopes(tree_):
        yield tree_
        for n in ast.walk(tree_):
            if isinstance(n, (ast.FunctionDef, ast.AsyncFunctionDef)):
                yield n

    def own_nodes(scope):
        """nodes of this scope, not descending into nested function/class scopes (but those scopes' names count as uses)"""
        stack = list(ast.iter_child_nodes(scope))
        while stack:
            n = stack.pop()
            yield n
            stack.extend(ast.iter_child_nodes(n))

    for scope in scopes(tree):
        loads, stores = {}, {}
        for n in own_nodes(scope):
            if isinstance(n, ast.Name):
                (loads if isinstance(n.ctx, ast.Load) else stores).setdefault(n.id, []).append(n)
            elif isinstance(n, (ast.Global, ast.Nonlocal)):
                for nm in n.names:
                    stores.setdefault(nm, []).extend([n, n])
        # names all of whose reads are `return v` / `raise v` directly preceded by `v = <expr>`
        pair_loads = {}
        declared = {nm for nm, sts in stores.items() if any(isinstance(x, (ast.Global, ast.Nonlocal)) for x in sts)}
        for body in scope_bodies(scope):
            for a, b in zip(body, body[1:]):
                if isinstance(a, ast.Assign) and len(a.targets) == 1 and isinstance(a.targets[0], ast.Name) and isinstance(b, (ast.Return, ast.Raise)) \
                        and isinstance(_slot(b), ast.Name) and _slot(b).id == a.targets[0].id:
                    pair_loads.setdefault(a.targets[0].id, []).append(_slot(b))
                elif isinstance(a, ast.Assign) and len(a.targets) == 1 and isinstance(a.targets[0], ast.Name) and isinstance(b, ast.With) and len(b.items) == 1 \
                        and isinstance(b.items[0].context_expr, ast.Name) and b.items[0].context_expr.id == a.targets[0].id and isinstance(a.value, ast.Attribute):
                    pair_loads.setdefault(a.targets[0].id, []).append(b.items[0].context_expr)
        pair_only = {nm for nm, ls in pair_loads.items() if nm not in declared and isinstance(scope, ast.FunctionDef)
                     and {id(x) for x in loads.get(nm, [])} == {id(x) for x in ls}}
        for body in scope_bodies(scope):
            i = 0
            while i + 1 < len(body):
                a, b = body[i], body[i + 1]
                if isinstance(a, ast.Assign) and len(a.targets) == 1 and isinstance(a.targets[0], ast.Name) and isinstance(b, (ast.Return, ast.Raise)):
                    # `v = <expr>` ; `return v` / `raise v`  (extract variable for the returned / raised value) is `return <expr>` / `raise <expr>` when nothing else
                    # ever reads v: every read of v in this scope is such a return/raise directly after an assignment of v
                    nm = a.targets[0].id
                    if nm in pair_only and _slot(b) is not None and isinstance(_slot(b), ast.Name) and _slot(b).id == nm \
                            and not any(isinstance(x, (ast.NamedExpr, ast.Yield, ast.YieldFrom, ast.Await)) for x in ast.walk(a.value)):
                        setattr(b, "value" if isinstance(b, ast.Return) else "exc", a.value)
                        del body[i]
                        continue
                if isinstance(a, ast.Assign) and len(a.targets) == 1 and isinstance(a.targets[0], ast.Name) and isinstance(b, ast.With) and len(b.items) == 1 \
                        and isinstance(b.items[0].context_expr, ast.Name) and b.items[0].context_expr.id == a.targets[0].id and isinstance(a.value, ast.Attribute):
                    # `cm = self.lock` ; `with cm:`  is  `with self.lock:`
                    nm = a.targets[0].id
                    if nm in pair_only:
                        b.items[0].context_expr = a.value
                        del body[i]
                        continue
                if isinstance(a, ast.Assign) and len(a.targets) == 1 and isinstance(a.targets[0], ast.Name) and isinstance(b, (ast.If, ast.While)) is True and isinstance(b, ast.If):
                    nm = a.targets[0].id
                    if len(stores.get(nm, [])) == 1 and len(loads.get(nm, [])) == 1 and not any(isinstance(x, (ast.NamedExpr, ast.Yield, ast.YieldFrom, ast.Await)) for x in ast.walk(a.value)):
                        use = loads[nm][0]

                        def replace_atom(test):
                            if test is use:
                                return a.value
                            if isinstance(test, ast.UnaryOp) and isinstance(test.op, ast.Not):
                                new = replace_atom(test.operand)
                                if new is not None:
                                    test.operand = new
                                    return test
                            if isinstance(test, ast.BoolOp) and test.values and test.values[0] is use:
                                # only the first operand is evaluated unconditionally, like the assignment was
                                test.values[0] = a.value
                                return test
                            return None
                        new_test = replace_atom(b.test)
                        if new_test is not None:
                            b.test = new_test
                            del body[i]
                            continue
                i += 1
    return tree


def mod_level_literals(tree):
    """module-level names bound (once, at top level) to a str/bytes literal"""
    out = {}
    for st in tree.body:
        if isinstance(st, ast.Assign) and len(st.targets) == 1 and isinstance(st.targets[0], ast.Name) and isinstance(st.value, ast.Constant) and isinstance(st.value.value, (str, bytes)):
            out[st.targets[0].id] = st.value
    return out


def set_parents(tree):
    for node in ast.walk(tree):
        for child in ast.iter_child_nodes(node):
            child._parent = node
    tree._parent = None


def dotted(expr):
    """a.b.c -> 'a.b.c' for Name/Attribute chains, else None"""
    parts = []
    while isinstance(expr, ast.Attribute):
        parts.append(expr.attr)
        expr = expr.value
    if isinstance(expr, ast.Name):
        parts.append(expr.id)
        return ".".join(reversed(parts))
    return None


class Program:
    def __init__(self, repo_root, package="Pyro5"):
        self.repo_root = repo_root
        self.package = package
        self.modules = {}
        self.functions = {}
        self.classes = {}
        self.digest = None
        self._load()
        self._resolve_classes()

    # ------------------------------------------------------------------ loading
    def _load(self):
        pkgdir = os.path.join(self.repo_root, self.package)
        if not os.path.isdir(pkgdir):
            raise AnalysisError("package directory not found: %s" % pkgdir)
        h = hashlib.sha256()
        files = []
        for dirpath, dirnames, filenames in os.walk(pkgdir):
            dirnames[:] = sorted(d for d in dirnames if d != "__pycache__")
            for fn in sorted(filenames):
                if fn.endswith(".py"):
                    files.append(os.path.join(dirpath, fn))
        for path in files:
            rel = os.path.relpath(path, self.repo_root)
            modname = rel[:-3].replace(os.sep, ".")
            if modname.endswith(".__init__"):
                modname = modname[:-len(".__init__")]
            with open(path, "rb") as f:
                raw = f.read()
            h.update(rel.encode() + b"\0" + raw)
            try:
                src = raw.decode("utf-8")
                mod = ModuleInfo(modname, path, rel, src)
            except (SyntaxError, UnicodeDecodeError, ValueError) as x:
                raise AnalysisError("cannot parse %s: %s" % (rel, x))
            self.modules[modname] = mod
        self.digest = h.hexdigest()
        self._inline_explaining_constants()
        self._inline_precompiled_structs()
        self._positional_own_calls()
        from .inline import inline_new_helpers
        self.read_through = inline_new_helpers({name: mod.tree for name, mod in self.modules.items()})
        for mod in self.modules.values():
            set_parents(mod.tree)
        for mod in self.modules.values():
            self._index_module(mod)

    def _positional_own_calls(self):
        """Normal form: a call of one of the package's own functions passes its leading arguments by position. `self.m(x=a, y=b)` / `f(x=a)` / `obj.m(x=a)` become
        `self.m(a, b)` etc. when the callee is known (a method of the enclosing class for self./cls. calls; otherwise a function or method name that the whole package
        defines exactly once), has no *args and no positional-only parameters, and the keywords name its next parameters in order (a keyword is moved only if every
        parameter before it is supplied). Keywords that cannot be moved stay keywords."""
        def plain(fn, is_method):
            a = fn.args
            if a.vararg or a.posonlyargs:
                return None
            if any(not (isinstance(d, ast.Name) and d.id in ("staticmethod", "classmethod")) for d in fn.decorator_list):
                return None
            params = [x.arg for x in a.args]
            static = any(isinstance(d, ast.Name) and d.id == "staticmethod" for d in fn.decorator_list)
            if is_method and not static:
                if not params:
                    return None
                params = params[1:]
            return params
        by_name = {}
        by_class = {}
        for mod in self.modules.values():
            for st in mod.tree.body:
                if isinstance(st, ast.FunctionDef):
                    by_name.setdefault(st.name, []).append(plain(st, False))
            for n in ast.walk(mod.tree):
                if isinstance(n, ast.ClassDef):
                    for m in n.body:
                        if isinstance(m, ast.FunctionDef):
                            by_name.setdefault(m.name, []).append(plain(m, True))
                            by_class.setdefault(id(n), {})[m.name] = plain(m, True)
                elif isinstance(n, (ast.FunctionDef, ast.Lambda)):
                    for inner in ast.walk(n):
                        if isinstance(inner, ast.FunctionDef) and inner is not n:
                            by_name.setdefault(inner.name, []).append(None)      # a nested function of that name: the name alone does not identify a callee

        def fix(call, params):
            if params is None or any(isinstance(x, ast.Starred) for x in call.args) or any(k.arg is None for k in call.keywords):
                return
            pos = len(call.args)
            kws = {k.arg: k for k in call.keywords}
            while pos < len(params) and params[pos] in kws:
                k = kws.pop(params[pos])
                call.args.append(k.value)
                call.keywords.remove(k)
                pos += 1

        def visit(node, cls):
            for ch in ast.iter_child_nodes(node):
                visit(ch, ch if isinstance(ch, ast.ClassDef) else cls)
            if not isinstance(node, ast.Call) or not node.keywords:
                return
            f = node.func
            name = f.attr if isinstance(f, ast.Attribute) else f.id if isinstance(f, ast.Name) else None
            if name is None or (name.startswith("__") and name.endswith("__")):
                return
            if isinstance(f, ast.Attribute) and isinstance(f.value, ast.Name) and f.value.id in ("self", "cls") and cls is not None and name in by_class.get(id(cls), {}):
                fix(node, by_class[id(cls)][name])
            elif len(by_name.get(name, [])) == 1:
                fix(node, by_name[name][0])
        for mod in self.modules.values():
            visit(mod.tree, None)

    def _inline_precompiled_structs(self):
        """Normal form: a module-level `S = struct.Struct(<format literal>)` bound once is the format with the struct functions applied to it:
        `S.pack(a, b)` is `struct.pack(fmt, a, b)`, likewise unpack / unpack_from / pack_into / iter_unpack, and `S.size` is `struct.calcsize(fmt)` (same module only)."""
        for mod in self.modules.values():
            structs = {}
            stores = {}
            for n in ast.walk(mod.tree):
                if isinstance(n, ast.Name) and isinstance(n.ctx, (ast.Store, ast.Del)):
                    stores[n.id] = stores.get(n.id, 0) + 1
            for st in mod.tree.body:
                if isinstance(st, ast.Assign) and len(st.targets) == 1 and isinstance(st.targets[0], ast.Name) and isinstance(st.value, ast.Call) \
                        and dotted(st.value.func) in ("struct.Struct", "Struct") and len(st.value.args) == 1 and not st.value.keywords:
                    fmt = st.value.args[0]
                    named = isinstance(fmt, ast.Name) and fmt.id in mod_level_literals(mod.tree) and stores.get(fmt.id) == 1      # the format constant keeps its name
                    if (named or (isinstance(fmt, ast.Constant) and isinstance(fmt.value, (str, bytes)))) and stores.get(st.targets[0].id) == 1:
                        structs[st.targets[0].id] = fmt
            if not structs:
                continue
            import copy

            class T(ast.NodeTransformer):
                def visit_Call(self, node):
                    self.generic_visit(node)
                    f = node.func
                    if isinstance(f, ast.Attribute) and isinstance(f.value, ast.Name) and f.value.id in structs and f.attr in ("pack", "unpack", "unpack_from", "pack_into", "iter_unpack"):
                        node.func = ast.copy_location(ast.Attribute(value=ast.Name(id="struct", ctx=ast.Load()), attr=f.attr, ctx=ast.Load()), f)
                        node.args = [ast.copy_location(copy.deepcopy(structs[f.value.id]), node)] + node.args
                    return node

                def visit_Attribute(self, node):
                    self.generic_visit(node)
                    if isinstance(node.value, ast.Name) and node.value.id in structs and node.attr == "size" and isinstance(node.ctx, ast.Load):
                        return ast.copy_location(ast.Call(func=ast.Attribute(value=ast.Name(id="struct", ctx=ast.Load()), attr="calcsize", ctx=ast.Load()),
                                                          args=[copy.deepcopy(structs[node.value.id])], keywords=[]), node)
                    return node
            T().visit(mod.tree)

    def _inline_explaining_constants(self):
        """Normal form: a module-level name bound once to an int/str/bytes literal that is not one of the library's own named constants (NAMED_CONSTANTS, the
        vocabulary the rules speak) is an explaining constant ("no magic numbers"): every read of it - in its module, through a module alias, or imported by name -
        is replaced by the literal, which is how the rules expect to see it."""
        cands = {}
        for mod in self.modules.values():
            stores, args = {}, set()
            for n in ast.walk(mod.tree):
                if isinstance(n, ast.Name) and isinstance(n.ctx, (ast.Store, ast.Del)):
                    stores[n.id] = stores.get(n.id, 0) + 1
                elif isinstance(n, ast.arg):
                    args.add(n.arg)
                elif isinstance(n, (ast.Global, ast.Nonlocal)):
                    for nm in n.names:
                        stores[nm] = stores.get(nm, 0) + 2
                elif isinstance(n, (ast.FunctionDef, ast.ClassDef)):
                    stores[n.name] = stores.get(n.name, 0) + 2
                elif isinstance(n, ast.ExceptHandler) and n.name:
                    stores[n.name] = stores.get(n.name, 0) + 2
                elif isinstance(n, ast.alias):
                    nm = (n.asname or n.name).split(".")[0]
                    stores[nm] = stores.get(nm, 0) + 2
            c = {}
            for st in mod.tree.body:
                if isinstance(st, ast.Assign) and len(st.targets) == 1 and isinstance(st.targets[0], ast.Name) and isinstance(st.value, ast.Constant) \
                        and type(st.value.value) in (int, str, bytes):
                    nm = st.targets[0].id
                    if nm not in NAMED_CONSTANTS and not (nm.startswith("__") and nm.endswith("__")) and stores.get(nm) == 1 and nm not in args:
                        c[nm] = st.value
            if c:
                cands[mod.name] = c
        if not cands:
            return
        import copy

        class T(ast.NodeTransformer):
            def __init__(self, names, aliases):
                self.names, self.aliases = names, aliases

            def visit_Name(self, node):
                if isinstance(node.ctx, ast.Load) and node.id in self.names:
                    return ast.copy_location(copy.deepcopy(self.names[node.id]), node)
                return node

            def visit_Attribute(self, node):
                if isinstance(node.ctx, ast.Load) and isinstance(node.value, ast.Name) and node.value.id in self.aliases and node.attr in self.aliases[node.value.id]:
                    return ast.copy_location(copy.deepcopy(self.aliases[node.value.id][node.attr]), node)
                self.generic_visit(node)
                return node
        for mod in self.modules.values():
            names = dict(cands.get(mod.name, {}))
            aliases = {}
            shadow = set()
            for n in ast.walk(mod.tree):
                if isinstance(n, ast.Name) and isinstance(n.ctx, (ast.Store, ast.Del)):
                    shadow.add(n.id)
                elif isinstance(n, ast.arg):
                    shadow.add(n.arg)
            for st in mod.tree.body:
                if isinstance(st, ast.ImportFrom):
                    base = self._resolve_relative(mod, st.level, st.module) if st.level else (st.module or "")
                    for a in st.names:
                        local = a.asname or a.name
                        if base + "." + a.name in cands and local not in shadow:
                            aliases[local] = cands[base + "." + a.name]
                        elif base in cands and a.name in cands[base] and local not in shadow:
                            names[local] = cands[base][a.name]
                elif isinstance(st, ast.Import):
                    for a in st.names:
                        if a.asname and a.name in cands and a.asname not in shadow:
                            aliases[a.asname] = cands[a.name]
            if names or aliases:
                own = set(cands.get(mod.name, {}))
                keep = [st for st in mod.tree.body]
                t = T(names, aliases)
                for i, st in enumerate(keep):
                    if isinstance(st, ast.Assign) and len(st.targets) == 1 and isinstance(st.targets[0], ast.Name) and st.targets[0].id in own:
                        continue
                    mod.tree.body[i] = t.visit(st)

    def _resolve_relative(self, mod, level, name):
        base = mod.name.split(".")
        is_pkg = mod.path.endswith("__init__.py")
        if not is_pkg:
            base = base[:-1]
        if level > 1:
            base = base[:len(base) - (level - 1)]
        if name:
            base = base + name.split(".")
        return ".".join(base)

    def _index_imports(self, mod, stmts, table):
        for st in stmts:
            if isinstance(st, ast.Import):
                for a in st.names:
                    local = a.asname or a.name.split(".")[0]
                    target = a.name if a.asname else a.name.split(".")[0]
                    if target == self.package or target.startswith(self.package + "."):
                        table[local] = ("module", target)
                    else:
                        table[local] = ("external", target)
            elif isinstance(st, ast.ImportFrom):
                if st.level:
                    base = self._resolve_relative(mod, st.level, st.module)
                else:
                    base = st.module or ""
                internal = base == self.package or base.startswith(self.package + ".")
                for a in st.names:
                    local = a.asname or a.name
                    full = base + "." + a.name if base else a.name
                    if internal:
                        # module or object? decided lazily in resolve_name
                        table[local] = ("internal", full)
                    else:
                        table[local] = ("external", full)
            elif isinstance(st, (ast.Try, ast.If, ast.With)):
                # try: import x except ImportError: ...   /  if cond: import   /  with suppress(ImportError): import
                for body in (getattr(st, "body", []), getattr(st, "orelse", []), getattr(st, "finalbody", [])):
                    self._index_imports(mod, body, table)
                for hnd in getattr(st, "handlers", []):
                    self._index_imports(mod, hnd.body, table)

    def _index_module(self, mod):
        self._index_imports(mod, mod.tree.body, mod.imports)
        for st in mod.tree.body:
            if isinstance(st, ast.Assign):
                for t in st.targets:
                    if isinstance(t, ast.Name):
                        mod.constants[t.id] = st.value
                        mod.toplevel_names.add(t.id)
            elif isinstance(st, ast.AnnAssign) and isinstance(st.target, ast.Name) and st.value is not None:
                mod.constants[st.target.id] = st.value
                mod.toplevel_names.add(st.target.id)
        self._index_scope(mod, mod.tree.body, mod.name, None, None)

    def _index_scope(self, mod, stmts, prefix, cls, parent_fn):
        for st in stmts:
            if isinstance(st, (ast.FunctionDef, ast.AsyncFunctionDef)):
                if isinstance(st, ast.AsyncFunctionDef):
                    raise AnalysisError("async code is not modelled: %s:%d" % (mod.relpath, st.lineno))
                qn = prefix + "." + st.name
                fi = FunctionInfo(qn, st, mod, cls, parent_fn)
                fi.decorators = [dotted(d) or (dotted(d.func) if isinstance(d, ast.Call) else None) for d in st.decorator_list]
                fi.is_method = cls is not None and parent_fn is None and st._parent is cls.node
                if qn in mod.functions:
                    # conditional redefinition (e.g. platform variants): keep all under suffixed names
                    k = 2
                    while "%s#%d" % (qn, k) in mod.functions:
                        k += 1
                    qn2 = "%s#%d" % (qn, k)
                    fi.qualname = qn2
                    mod.functions[qn2] = fi
                    self.functions[qn2] = fi
                else:
                    mod.functions[qn] = fi
                    self.functions[qn] = fi
                    if fi.is_method:
                        cls.methods[st.name] = fi
                if parent_fn is None and cls is None:
                    mod.toplevel_names.add(st.name)
                self._index_scope(mod, st.body, fi.qualname, cls, fi)
            elif isinstance(st, ast.ClassDef):
                qn = prefix + "." + st.name
                ci = ClassInfo(qn, st, mod)
                mod.classes[qn] = ci
                self.classes[qn] = ci
                if parent_fn is None and cls is None:
                    mod.toplevel_names.add(st.name)
                for b in st.body:
                    if isinstance(b, ast.Assign):
                        for t in b.targets:
                            if isinstance(t, ast.Name):
                                ci.class_attrs[t.id] = b.value
                self._index_scope(mod, st.body, qn, ci, None)
            else:
                # functions/classes nested in compound statements (if/try/with/for/while)
                for field in ("body", "orelse", "finalbody"):
                    sub = getattr(st, field, None)
                    if isinstance(sub, list) and sub and isinstance(sub[0], ast.stmt):
                        self._index_scope(mod, sub, prefix, cls, parent_fn)
                for hnd in getattr(st, "handlers", []):
                    self._index_scope(mod, hnd.body, prefix, cls, parent_fn)

    # ------------------------------------------------------------------ name resolution
    def resolve_import(self, mod, local):
        """('module', dotted) | ('class', qualname) | ('function', qualname) | ('object', dotted) | ('external', dotted) | None"""
        ent = mod.imports.get(local)
        if ent is None:
            return None
        kind, target = ent
        if kind == "internal":
            if target in self.modules:
                return ("module", target)
            if target in self.classes:
                return ("class", target)
            if target in self.functions:
                return ("function", target)
            # re-exported name? follow one level through the defining module's imports
            modname, _, name = target.rpartition(".")
            m2 = self.modules.get(modname)
            if m2 is not None and name in m2.imports:
                r = self.resolve_import(m2, name)
                if r:
                    return r
            return ("object", target)
        return (kind, target)

    def resolve_dotted(self, mod, name, fn=None):
        """Resolve a dotted name used in module `mod` (optionally inside function fn with its local imports)
        to ('module'|'class'|'function'|'object'|'external', qualified)."""
        parts = name.split(".")
        head = parts[0]
        cur = None
        # function-level imports
        f = fn
        while f is not None and cur is None:
            table = getattr(f, "_local_imports", None)
            if table is None:
                table = {}
                self._index_imports_deep(f.module, f.node.body, table)
                f._local_imports = table
            if head in table:
                saved = mod.imports.get(head)
                mod.imports[head] = table[head]
                try:
                    cur = self.resolve_import(mod, head)
                finally:
                    if saved is None:
                        del mod.imports[head]
                    else:
                        mod.imports[head] = saved
            f = f.parent
        if cur is None:
            if head in mod.imports:
                cur = self.resolve_import(mod, head)
            elif mod.name + "." + head in self.classes:
                cur = ("class", mod.name + "." + head)
            elif mod.name + "." + head in self.functions:
                cur = ("function", mod.name + "." + head)
            elif head in mod.constants:
                cur = ("object", mod.name + "." + head)
            else:
                return None
        for p in parts[1:]:
            kind, q = cur
            if kind == "module":
                nxt = q + "." + p
                if nxt in self.modules:
                    cur = ("module", nxt)
                elif nxt in self.classes:
                    cur = ("class", nxt)
                elif nxt in self.functions:
                    cur = ("function", nxt)
                else:
                    m2 = self.modules[q]
                    if p in m2.imports:
                        r = self.resolve_import(m2, p)
                        cur = r if r else ("object", nxt)
                    else:
                        cur = ("object", nxt)
            elif kind == "class":
                ci = self.classes[q]
                m = self.lookup_method(ci, p)
                if m is not None:
                    cur = ("function", m.qualname)
                else:
                    cur = ("object", q + "." + p)
            elif kind == "external":
                cur = ("external", q + "." + p)
            else:
                cur = ("object", q + "." + p)
        return cur

    def _index_imports_deep(self, mod, stmts, table):
        for st in stmts:
            if isinstance(st, (ast.Import, ast.ImportFrom)):
                self._index_imports(mod, [st], table)
            elif isinstance(st, (ast.FunctionDef, ast.ClassDef, ast.Lambda)):
                continue
            else:
                for field in ("body", "orelse", "finalbody"):
                    sub = getattr(st, field, None)
                    if isinstance(sub, list) and sub and isinstance(sub[0], ast.stmt):
                        self._index_imports_deep(mod, sub, table)
                for hnd in getattr(st, "handlers", []):
                    self._index_imports_deep(mod, hnd.body, table)

    # ------------------------------------------------------------------ classes
    def _resolve_classes(self):
        for ci in self.classes.values():
            ci.bases = []
            base_exprs = ci.base_exprs or [ast.Name(id="object", ctx=ast.Load())]     # `class C:` is `class C(object):`
            for b in base_exprs:
                d = dotted(b)
                if d is None:
                    ci.bases.append("ext:?")
                    continue
                r = self.resolve_dotted(ci.module, d)
                if r and r[0] == "class":
                    ci.bases.append(r[1])
                elif r and r[0] == "external":
                    ci.bases.append("ext:" + r[1])
                else:
                    ci.bases.append("ext:" + d)

    def mro(self, ci):
        """linearised list of package ClassInfos (depth-first, left-to-right, duplicates removed — the package
        has no diamond inheritance, so this equals the C3 order)"""
        out = []
        seen = set()

        def walk(c):
            if c.qualname in seen:
                return
            seen.add(c.qualname)
            out.append(c)
            for b in c.bases:
                if b in self.classes:
                    walk(self.classes[b])
        walk(ci)
        return out

    def external_bases(self, ci):
        out = []
        for c in self.mro(ci):
            for b in c.bases:
                if b.startswith("ext:"):
                    out.append(b[4:])
        return out

    def lookup_method(self, ci, name, after=None):
        """method lookup through the package MRO; `after`: start after that class (super())"""
        chain = self.mro(ci)
        if after is not None:
            idx = [c.qualname for c in chain].index(after.qualname)
            chain = chain[idx + 1:]
        for c in chain:
            if name in c.methods:
                return c.methods[name]
        return None

    def subclasses(self, ci):
        out = []
        for c in self.classes.values():
            if c is not ci and ci in self.mro(c):
                out.append(c)
        return out

    def is_subclass(self, qual, base_qual):
        ci = self.classes.get(qual)
        if ci is None:
            return False
        return any(c.qualname == base_qual for c in self.mro(ci))

    # ------------------------------------------------------------------ anchors
    def fn(self, qualname):
        f = self.functions.get(qualname)
        if f is None:
            raise AnalysisError("anchor function vanished: %s" % qualname)
        return f

    def cls(self, qualname):
        c = self.classes.get(qualname)
        if c is None:
            raise AnalysisError("anchor class vanished: %s" % qualname)
        return c

    def module(self, name):
        m = self.modules.get(name)
        if m is None:
            raise AnalysisError("anchor module vanished: %s" % name)
        return m

    def enclosing_function(self, node):
        """FunctionInfo whose body (not a nested def) contains the node"""
        n = node
        while n is not None:
            n = getattr(n, "_parent", None)
            if isinstance(n, (ast.FunctionDef, ast.Lambda)):
                for f in self.functions.values():
                    if f.node is n:
                        return f
                return None
        return None


# ---------------------------------------------------------------------- constant folding
def fold(program, mod, expr, depth=0):
    """Fold module-level constant expressions: ints, strs, bytes, shifts/or/and, names of module constants,
    struct.calcsize(<const>), <int const>.to_bytes(<int>, <str>), len(<const>). Returns (True, value) or (False, None)."""
    import struct
    if depth > 20:
        return (False, None)
    if isinstance(expr, ast.Constant):
        return (True, expr.value)
    if isinstance(expr, ast.Name):
        if expr.id in mod.constants:
            return fold(program, mod, mod.constants[expr.id], depth + 1)
        return (False, None)
    if isinstance(expr, ast.Attribute):
        d = dotted(expr)
        if d:
            r = program.resolve_dotted(mod, d)
            if r and r[0] == "object":
                mname, _, cname = r[1].rpartition(".")
                m2 = program.modules.get(mname)
                if m2 and cname in m2.constants:
                    return fold(program, m2, m2.constants[cname], depth + 1)
        return (False, None)
    if isinstance(expr, ast.UnaryOp):
        ok, v = fold(program, mod, expr.operand, depth + 1)
        if not ok:
            return (False, None)
        try:
            if isinstance(expr.op, ast.Invert):
                return (True, ~v)
            if isinstance(expr.op, ast.USub):
                return (True, -v)
            if isinstance(expr.op, ast.Not):
                return (True, not v)
        except Exception:
            return (False, None)
        return (False, None)
    if isinstance(expr, ast.BinOp):
        ok1, a = fold(program, mod, expr.left, depth + 1)
        ok2, b = fold(program, mod, expr.right, depth + 1)
        if not (ok1 and ok2):
            return (False, None)
        try:
            op = expr.op
            if isinstance(op, ast.LShift):
                return (True, a << b)
            if isinstance(op, ast.RShift):
                return (True, a >> b)
            if isinstance(op, ast.BitOr):
                return (True, a | b)
            if isinstance(op, ast.BitAnd):
                return (True, a & b)
            if isinstance(op, ast.Add):
                return (True, a + b)
            if isinstance(op, ast.Sub):
                return (True, a - b)
            if isinstance(op, ast.Mult):
                return (True, a * b)
        except Exception:
            return (False, None)
        return (False, None)
    if isinstance(expr, ast.Call):
        d = dotted(expr.func)
        if d == "struct.calcsize" and len(expr.args) == 1:
            ok, v = fold(program, mod, expr.args[0], depth + 1)
            if ok and isinstance(v, str):
                try:
                    return (True, struct.calcsize(v))
                except struct.error:
                    return (False, None)
        if d == "len" and len(expr.args) == 1:
            ok, v = fold(program, mod, expr.args[0], depth + 1)
            if ok and isinstance(v, (str, bytes)):
                return (True, len(v))
        if isinstance(expr.func, ast.Attribute) and expr.func.attr == "to_bytes" and len(expr.args) == 2:
            ok0, v = fold(program, mod, expr.func.value, depth + 1)
            ok1, n = fold(program, mod, expr.args[0], depth + 1)
            ok2, bo = fold(program, mod, expr.args[1], depth + 1)
            if ok0 and ok1 and ok2 and isinstance(v, int):
                try:
                    return (True, v.to_bytes(n, bo))
                except Exception:
                    return (False, None)
    return (False, None)
