"""
D. Exception-escape analysis: which exception classes may leave a function (may-raise with handler subtraction,
fix-point over the typed call graph), each with one witness chain down to the raise site / external call.

An item is a class name meaning "an instance of this class or of any subclass may be raised".
`builtins.Exception` therefore also plays the role of WILD (user / third-party code may raise any Exception).

Stated unsoundness: implicit KeyError/IndexError/TypeError/AttributeError of subscripts, attribute access and
operators are not modelled; BaseExceptions that are not Exceptions (KeyboardInterrupt, SystemExit, GeneratorExit) are
out of scope.
"""
import ast
import builtins
from .model import dotted, AnalysisError
from .cfg import walk_no_nested

WILD = "builtins.Exception"

EXT_PARENTS = {
    "ext:sqlite3.Error": "builtins.Exception",
    "ext:sqlite3.DatabaseError": "ext:sqlite3.Error",
    "ext:sqlite3.OperationalError": "ext:sqlite3.DatabaseError",
    "ext:sqlite3.IntegrityError": "ext:sqlite3.DatabaseError",
    "ext:struct.error": "builtins.Exception",
    "ext:zlib.error": "builtins.Exception",
    "ext:re.error": "builtins.Exception",
    "ext:socket.gaierror": "builtins.OSError",
    "ext:socket.herror": "builtins.OSError",
    "ext:ssl.SSLError": "builtins.OSError",
    "ext:json.JSONDecodeError": "builtins.ValueError",
    "ext:json.decoder.JSONDecodeError": "builtins.ValueError",
}
EXT_ALIASES = {
    "socket.error": "builtins.OSError",
    "socket.timeout": "builtins.TimeoutError",
    "select.error": "builtins.OSError",
    "IOError": "builtins.OSError",
    "EnvironmentError": "builtins.OSError",
}

# ---- external calls (table E): what they may raise.  key = dotted external name as resolved by the call graph.
OSERR = ["builtins.OSError"]
EXT_RAISES = {
    "builtins.int": ["builtins.ValueError"],
    "builtins.float": ["builtins.ValueError"],
    "builtins.complex": ["builtins.ValueError"],
    "uuid.UUID": ["builtins.ValueError"],
    "struct.unpack": ["ext:struct.error"],
    "struct.pack": ["ext:struct.error"],
    "zlib.decompress": ["ext:zlib.error"],
    "builtins.getattr/2": ["builtins.AttributeError"],     # getattr without default
    "builtins.setattr": ["builtins.AttributeError"],
    "builtins.delattr": ["builtins.AttributeError"],
    "builtins.iter": ["builtins.TypeError"],
    "builtins.__import__": [WILD],
    "builtins.open": OSERR,
    "builtins.eval": [WILD], "builtins.exec": [WILD], "builtins.compile": [WILD],
    "marshal.loads": [WILD], "marshal.dumps": [WILD],        # ValueError/EOFError/TypeError on hostile or unsupported data
    "json.loads": ["builtins.ValueError"], "json.dumps": [WILD],   # dumps runs the user-visible default() hook
    "serpent.loads": [WILD], "serpent.dumps": [WILD],
    "msgpack.unpackb": [WILD], "msgpack.packb": [WILD],
    "selectors.DefaultSelector().select": OSERR,
    "socket.socket": OSERR, "socket.getaddrinfo": OSERR, "socket.gethostname": OSERR, "socket.gethostbyaddr": OSERR,
    "socket.socketpair": OSERR,
    "datetime.datetime.fromtimestamp": ["builtins.ValueError", "builtins.OSError", "builtins.OverflowError"],
    "datetime.date.fromordinal": ["builtins.ValueError", "builtins.OverflowError"],
    "re.compile": ["ext:re.error"], "re.match": ["ext:re.error"],
    "sqlite3.connect": ["ext:sqlite3.Error"],
    "os.remove": OSERR, "os.unlink": OSERR,
    "ipaddress.ip_address": ["builtins.ValueError"], "ipaddress.ip_interface": ["builtins.ValueError"],
}
# external modules / objects whose calls are taken not to raise Exceptions a peer can trigger (reason: pure helpers,
# logging, clocks, synchronisation primitives, introspection)
EXT_BENIGN_PREFIXES = (
    "builtins.", "logging.", "time.", "threading.", "uuid.uuid4", "inspect.", "contextlib.", "os.path.", "os.getpid", "sys.",
    "struct.calcsize", "weakref.", "collections.", "traceback.", "warnings.", "platform.", "zlib.compress", "errno.",
    "selectors.", "itertools.", "functools.", "linecache.", "array.", "decimal.", "numbers.", "typing.", "ssl.", "select.",
    "msgpack.ExtType", "object.", "dict.", "datetime.", "ipaddress.", "argparse.", "os.environ", "os.", "socket.", "urllib.", "json.",
    "serpent.register_class", "serpent.unregister_class", "serpent.tobytes", "random.", "string.", "pprint.", "wsgiref.", "re.", "greenlet.",
    "ctypes.", "fcntl.", "sqlite3.", "marshal.", "io.", "textwrap.", "html.", "cgi.", "optparse.", "code.", "readline.", "rlcompleter.", "math.",
    "tempfile.", "shutil.", "subprocess.", "signal.", "atexit.", "copy.", "operator.", "abc.", "enum.", "secrets.", "hashlib.", "hmac.", "base64.",
    "binascii.", "codecs.", "locale.", "gettext.", "getpass.", "queue.", "sched.", "heapq.", "bisect.", "types.", "gc.", "dis.", "ast.", "pdb.",
)
# method names on receivers of unknown (external) type
ATTR_RAISES = {
    "recv": OSERR, "send": OSERR, "sendall": OSERR, "accept": OSERR, "getpeername": OSERR, "shutdown": OSERR,
    "recvfrom": OSERR, "sendto": OSERR, "connect": OSERR, "bind": OSERR, "listen": OSERR, "select": OSERR,
    "wrap_socket": OSERR, "recv_into": OSERR, "do_handshake": OSERR,
    "decode": ["builtins.ValueError"], "encode": ["builtins.ValueError"],     # Unicode(De|En)codeError
    "execute": ["ext:sqlite3.Error"], "executemany": ["ext:sqlite3.Error"], "commit": ["ext:sqlite3.Error"], "cursor": ["ext:sqlite3.Error"],
    "fetchone": ["ext:sqlite3.Error"], "fetchall": ["ext:sqlite3.Error"],
    "fromtimestamp": ["builtins.ValueError", "builtins.OSError", "builtins.OverflowError"],
    "fromordinal": ["builtins.ValueError", "builtins.OverflowError"],
}
ATTR_BENIGN = {
    # str / bytes
    "startswith", "endswith", "format", "join", "split", "rsplit", "partition", "rpartition", "strip", "lstrip", "rstrip", "lower", "upper",
    "replace", "hex", "tobytes", "isoformat", "splitlines", "title", "zfill", "ljust", "rjust", "find", "isdigit",
    # containers
    "append", "extend", "items", "keys", "values", "get", "pop", "add", "discard", "remove", "update", "clear", "copy", "setdefault",
    "index", "count", "sort", "insert", "issubset", "popitem", "union", "intersection", "difference",
    # numbers / arrays / dates
    "to_bytes", "tolist", "tounicode", "tostring", "timestamp", "toordinal", "total_seconds", "bit_length",
    # sockets & selectors: bookkeeping calls that do not fail because of what a peer sends (assumption, see DESIGN 8)
    "fileno", "gettimeout", "settimeout", "close", "setsockopt", "getsockopt", "getsockname", "setblocking", "register", "unregister",
    "get_map", "modify", "getpeercert", "set_inheritable", "family",
    # threading
    "is_set", "set", "wait", "acquire", "release", "start", "is_alive", "isAlive", "setDaemon", "notify", "notify_all",
    # logging
    "debug", "info", "warning", "error", "exception", "critical", "isEnabledFor", "log", "setLevel", "addHandler",
    # misc
    "groups", "group", "match", "groupdict", "write", "flush", "read", "readline", "seek", "tell", "lstrip", "is_unspecified", "fromkeys",
    "__getstate__", "__setstate__", "__get__", "mro", "with_traceback", "ser_builtins_dict", "ser_default_class", "_serialize",
    "parse_args", "add_argument", "print_exc", "serve_forever", "server_close",
}
# the members of ATTR_BENIGN that are benign only because of what their receiver is taken to be (sockets, selectors, events, threads, files)
OBJECT_VERBS = {"close", "shutdown", "settimeout", "setsockopt", "setblocking", "register", "unregister", "modify", "set", "wait", "acquire", "release", "start",
                "notify", "notify_all", "write", "flush", "read", "readline", "seek", "serve_forever", "server_close"}
# package methods that applications override (hooks): a call that may reach one may run arbitrary user code
HOOK_METHODS_WILD = {
    "Pyro5.server.Daemon.validateHandshake": "user-overridable handshake validator",
    "Pyro5.server.Daemon.clientDisconnect": "user-overridable disconnect hook",
    "Pyro5.server.Daemon.annotations": "user-overridable annotations provider",
    "Pyro5.client.Proxy._pyroValidateHandshake": "user-overridable client handshake validator",
}


# callables supplied by the owner of the daemon, not by a peer (DESIGN 2.D): no client input makes them raise
OWNER_CALLABLES = {
    ("Pyro5.svr_threads.SocketServer_Threadpool.loop", "loopCondition"),
    ("Pyro5.svr_multiplex.SocketServer_Multiplex.loop", "loopCondition"),
    ("Pyro5.svr_existingconn.SocketServer_ExistingConnection.loop", "loopCondition"),
    ("Pyro5.server.Daemon.requestLoop.<lambda>", "loopCondition"),
}


class Escape:
    def __init__(self, program, callgraph):
        self.p = program
        self.cg = callgraph
        self.result = {}          # qualname -> {class: witness tuple}
        self._builtin_exc = {n: c for n, c in vars(builtins).items() if isinstance(c, type) and issubclass(c, BaseException)}
        self.unclassified_ext = {}   # name -> count (external calls treated as WILD because no table entry covers them)
        self.wild_sites = []         # (loc, description)
        self.calls_classified = {"fn": 0, "ext_benign": 0, "ext_raises": 0, "wild": 0, "ctor": 0}
        self._solved = False

    # ------------------------------------------------------------------ class hierarchy
    def class_of_expr(self, expr, f):
        """resolve an exception class expression to its canonical name (or None)"""
        d = dotted(expr)
        if d is None:
            return None
        if d in EXT_ALIASES:
            return EXT_ALIASES[d]
        r = self.p.resolve_dotted(f.module, d, f)
        if r is None:
            if d in self._builtin_exc:
                c = self._builtin_exc[d]
                return "builtins." + c.__name__     # canonical (IOError -> OSError)
            return None
        kind, q = r
        if kind == "class":
            return q
        if kind == "external":
            if q in EXT_ALIASES:
                return EXT_ALIASES[q]
            if q.startswith("builtins."):
                nm = q[len("builtins."):]
                if nm in self._builtin_exc:
                    return "builtins." + self._builtin_exc[nm].__name__
            return "ext:" + q
        return None

    def parents(self, c):
        if c.startswith("builtins."):
            cls = self._builtin_exc.get(c[len("builtins."):])
            if cls is None:
                return []
            return ["builtins." + b.__name__ for b in cls.__mro__[1:] if b is not object]
        if c.startswith("ext:"):
            out = []
            cur = c
            while cur in EXT_PARENTS:
                cur = EXT_PARENTS[cur]
                out.append(cur)
                if cur.startswith("builtins."):
                    out += self.parents(cur)
                    return out
            out.append("builtins.Exception")
            out.append("builtins.BaseException")
            return out
        ci = self.p.classes.get(c)
        if ci is None:
            return ["builtins.Exception", "builtins.BaseException"]
        out = []
        for k in self.p.mro(ci)[1:]:
            out.append(k.qualname)
        for b in self.p.external_bases(ci):
            nm = "builtins." + b if not b.startswith("builtins.") and b in self._builtin_exc else b
            if nm.startswith("builtins."):
                out.append(nm)
                out += self.parents(nm)
            else:
                out.append("ext:" + b)
                out += self.parents("ext:" + b)
        return out

    def is_sub(self, c, base):
        return c == base or base in self.parents(c)

    def is_exception(self, c):
        return self.is_sub(c, "builtins.Exception")

    # ------------------------------------------------------------------ driver
    def solve(self):
        if self._solved:
            return
        fns = list(self.p.functions.values())
        for f in fns:
            self.result[f.qualname] = {}
        changed = True
        rounds = 0
        while changed:
            changed = False
            rounds += 1
            if rounds > 50:
                raise AnalysisError("escape analysis did not converge")
            record = rounds == 1
            for f in fns:
                new = self._function(f, record)
                old = self.result[f.qualname]
                if set(new) != set(old):
                    merged = dict(old)
                    for k, w in new.items():
                        merged.setdefault(k, w)
                    if set(merged) != set(old):
                        self.result[f.qualname] = merged
                        changed = True
        self._solved = True

    def escapes(self, qualname):
        self.solve()
        if qualname not in self.result:
            raise AnalysisError("anchor function vanished: %s" % qualname)
        return self.result[qualname]

    # ------------------------------------------------------------------ evaluation
    def _function(self, f, record):
        body = f.node.body if not isinstance(f.node, ast.Lambda) else [ast.Expr(value=f.node.body)]
        ctx = {"f": f, "caught": None, "vars": {}, "record": record}
        return self.block(body, ctx)

    def _merge(self, a, b):
        for k, w in b.items():
            a.setdefault(k, w)
        return a

    def block(self, stmts, ctx):
        out = {}
        for st in stmts:
            self._merge(out, self.stmt(st, ctx))
        return out

    def expr_calls(self, exprs, ctx):
        out = {}
        for e in exprs:
            if e is None:
                continue
            for n in walk_no_nested(e):
                if isinstance(n, ast.Call):
                    self._merge(out, self.call(n, ctx))
                elif isinstance(n, ast.BinOp) and isinstance(n.op, ast.Mod) and isinstance(n.left, ast.Constant) and isinstance(n.left.value, str):
                    # "...%s:%d" % x with x not written as a tuple: the number (and kind) of values is whatever x happens to be at run time
                    import re as _re
                    specs = _re.findall(r"%(?!%)[#0\- +]*(?:\*|\d+)?(?:\.(?:\*|\d+))?[diouxXeEfFgGcrsa]", n.left.value)
                    if len(specs) >= 2 and not isinstance(n.right, (ast.Tuple, ast.Dict)):
                        f = ctx["f"]
                        out.setdefault(("builtins.TypeError", "fmt@%s:%s" % (f.qualname, n.left.value[:30])),
                                       ("%s %s: %%-format with %d conversions applied to `%s`, which is not a tuple display" % (f.loc(n), f.name, len(specs), ast.unparse(n.right)),))
        self._merge(out, self._stringified_exceptions(exprs, ctx))
        return out

    def _stringified_exceptions(self, exprs, ctx):
        """str(x) / repr(x) / "%s" % x / "...{}".format(x) / f"{x}" / "text" + str(x) where x is the exception bound by a handler that catches arbitrary classes
        (`except Exception as x`, a bare except, or the value from sys.exc_info() inside one): the text comes from the class's own __str__/__repr__, which for an
        exception raised by user code is user code and may raise. Arguments handed to a logging call are not formatted by the caller (the logging module formats
        them later and contains what that raises), so they do not count."""
        f = ctx["f"]
        out = {}

        def arbitrary(name, at):
            n = getattr(at, "_parent", None)
            while n is not None and n is not f.node:
                if isinstance(n, ast.ExceptHandler):
                    classes = self.handler_classes(n, f)
                    wide = any(c in ("builtins.Exception", "builtins.BaseException") for c in classes)
                    if n.name == name:
                        return wide
                    if wide:
                        # assigned from sys.exc_info() inside this handler?
                        for st in walk_no_nested(n):
                            if isinstance(st, ast.Assign) and isinstance(st.value, ast.Call) and dotted(st.value.func) == "sys.exc_info":
                                tg = st.targets[0]
                                if isinstance(tg, ast.Tuple) and len(tg.elts) == 3 and isinstance(tg.elts[1], ast.Name) and tg.elts[1].id == name:
                                    return True
                n = getattr(n, "_parent", None)
            return False

        def hit(name_node, how):
            out.setdefault((WILD, "str@%s:%s" % (f.qualname, how)),
                           ("%s %s: %s builds text from a caught exception of arbitrary class (its __str__/__repr__ is user code and may raise)" % (f.loc(name_node), f.name, how),))
        for e in exprs:
            if e is None:
                continue
            for n in walk_no_nested(e):
                if isinstance(n, ast.Call) and isinstance(n.func, ast.Name) and n.func.id in ("str", "repr") and len(n.args) == 1 and isinstance(n.args[0], ast.Name) \
                        and arbitrary(n.args[0].id, n):
                    hit(n, "%s(%s)" % (n.func.id, n.args[0].id))
                elif isinstance(n, ast.BinOp) and isinstance(n.op, ast.Mod) and isinstance(n.left, ast.Constant) and isinstance(n.left.value, str):
                    vals = n.right.elts if isinstance(n.right, ast.Tuple) else [n.right]
                    for v in vals:
                        if isinstance(v, ast.Name) and arbitrary(v.id, n):
                            hit(n, "`... %% %s`" % v.id)
                elif isinstance(n, ast.Call) and isinstance(n.func, ast.Attribute) and n.func.attr == "format" and isinstance(n.func.value, ast.Constant):
                    for v in list(n.args) + [k.value for k in n.keywords]:
                        if isinstance(v, ast.Name) and arbitrary(v.id, n):
                            hit(n, "`'...'.format(%s)`" % v.id)
                elif isinstance(n, ast.FormattedValue) and isinstance(n.value, ast.Name) and arbitrary(n.value.id, n):
                    hit(n, "f-string {%s}" % n.value.id)
        return out

    def handler_classes(self, h, f):
        if h.type is None:
            return ["builtins.BaseException"]
        types = h.type.elts if isinstance(h.type, ast.Tuple) else [h.type]
        out = []
        for t in types:
            c = self.class_of_expr(t, f)
            if c is None:
                raise AnalysisError("cannot resolve exception class %s at %s" % (ast.unparse(t), f.loc(t)))
            out.append(c)
        return out

    def subtract(self, items, classes):
        """split items into (remaining, caught) for a handler catching `classes`"""
        remaining, caught = {}, {}
        for k, w in items.items():
            c, origin = k
            if any(self.is_sub(c, h) for h in classes):
                caught[k] = w
            else:
                remaining[k] = w
                for h in classes:
                    if self.is_sub(h, c):
                        caught.setdefault((h, origin), w)    # the handler takes the part of c that lies under h
        return remaining, caught

    def stmt(self, st, ctx):
        f = ctx["f"]
        if isinstance(st, (ast.FunctionDef, ast.ClassDef)):
            return self.expr_calls(st.decorator_list, ctx)
        if isinstance(st, ast.Raise):
            out = self.expr_calls([st.exc, st.cause], ctx)
            loc = f.loc(st)
            if st.exc is None:
                if ctx["caught"] is None:
                    return out
                for k, w in ctx["caught"].items():
                    out.setdefault(k, w + ("re-raised at %s" % loc,))
                return out
            e = st.exc
            if isinstance(e, ast.Name) and e.id in ctx["vars"]:
                for k, w in ctx["vars"][e.id].items():
                    out.setdefault(k, w + ("re-raised at %s" % loc,))
                return out
            cls = None
            if isinstance(e, ast.Call):
                cls = self.class_of_expr(e.func, f)
            elif isinstance(e, (ast.Name, ast.Attribute)):
                cls = self.class_of_expr(e, f) if not (isinstance(e, ast.Name) and self.cg.is_local(f, e.id)) else None
                if cls is None and isinstance(e, ast.Name):
                    classes = self._local_exception_classes(f, e.id)
                    if classes:
                        for c in classes:
                            out.setdefault((c, "raise@%s" % f.qualname), ("raise %s at %s" % (e.id, loc),))
                        return out
            if cls is None:
                cls = WILD
            out.setdefault((cls, "raise@%s" % f.qualname), ("raise %s at %s" % (cls.split(".")[-1], loc),))
            return out
        if isinstance(st, ast.Assert):
            out = self.expr_calls([st.test, st.msg], ctx)
            out.setdefault(("builtins.AssertionError", "assert@%s" % f.qualname), ("assert at %s" % f.loc(st),))
            return out
        if isinstance(st, ast.Try):
            body = self.block(st.body, ctx)
            remaining = body
            out = {}
            for h in st.handlers:
                classes = self.handler_classes(h, f)
                remaining, caught = self.subtract(remaining, classes)
                hctx = dict(ctx)
                hctx["caught"] = caught
                hv = dict(ctx["vars"])
                if h.name:
                    hv[h.name] = caught
                hctx["vars"] = hv
                self._merge(out, self.block(h.body, hctx))
            self._merge(out, remaining)
            self._merge(out, self.block(st.orelse, ctx))
            self._merge(out, self.block(st.finalbody, ctx))
            return out
        if isinstance(st, ast.With):
            out = {}
            sup = []
            for it in st.items:
                e = it.context_expr
                if isinstance(e, ast.Call) and dotted(e.func) in ("contextlib.suppress", "suppress"):
                    for a in e.args:
                        c = self.class_of_expr(a, f)
                        if c is None:
                            raise AnalysisError("cannot resolve suppressed class at %s" % f.loc(a))
                        sup.append(c)
                else:
                    self._merge(out, self.expr_calls([e], ctx))
            body = self.block(st.body, ctx)
            if sup:
                body, _ = self.subtract(body, sup)
            return self._merge(out, body)
        if isinstance(st, ast.If):
            out = self.expr_calls([st.test], ctx)
            self._merge(out, self.block(st.body, ctx))
            self._merge(out, self.block(st.orelse, ctx))
            return out
        if isinstance(st, ast.While):
            out = self.expr_calls([st.test], ctx)
            self._merge(out, self.block(st.body, ctx))
            self._merge(out, self.block(st.orelse, ctx))
            return out
        if isinstance(st, ast.For):
            out = self.expr_calls([st.iter], ctx)
            self._merge(out, self.block(st.body, ctx))
            self._merge(out, self.block(st.orelse, ctx))
            return out
        if isinstance(st, (ast.Pass, ast.Break, ast.Continue, ast.Global, ast.Nonlocal, ast.Import, ast.ImportFrom)):
            return {}
        if isinstance(st, (ast.Expr, ast.Assign, ast.AugAssign, ast.AnnAssign, ast.Return, ast.Delete)):
            return self.expr_calls([st], ctx)
        raise AnalysisError("statement kind %s not modelled in escape analysis (%s)" % (type(st).__name__, f.loc(st)))

    def _local_exception_classes(self, f, name):
        out = []
        for n in walk_no_nested(f.node):
            if isinstance(n, ast.Assign) and any(isinstance(t, ast.Name) and t.id == name for t in n.targets):
                if isinstance(n.value, ast.Call):
                    c = self.class_of_expr(n.value.func, f)
                    if c and (self.is_sub(c, "builtins.BaseException")):
                        out.append(c)
        return out

    def call(self, call, ctx):
        f = ctx["f"]
        record = ctx["record"]
        loc = f.loc(call)
        out = {}
        # "...{0[1]}...".format(x) / "{0.attr}": the format machinery indexes / dereferences the argument and raises when it cannot
        if isinstance(call.func, ast.Attribute) and call.func.attr == "format" and isinstance(call.func.value, ast.Constant) and isinstance(call.func.value.value, str):
            import string
            try:
                fields = [fn_ for _, fn_, _, _ in string.Formatter().parse(call.func.value.value) if fn_]
            except ValueError:
                fields = []
            if any("[" in x or "." in x for x in fields):
                for c in ("builtins.IndexError", "builtins.KeyError", "builtins.TypeError", "builtins.AttributeError"):
                    out.setdefault((c, "fmt@%s:%s" % (f.qualname, call.func.value.value[:30])),
                                   ("%s %s: a format field indexes or dereferences its argument" % (loc, f.name),))
        targets = self.cg.resolve_call(call, f)
        for t in targets:
            if t.kind == "fn":
                if record:
                    self.calls_classified["fn"] += 1
                callee = t.fn
                hop = "%s %s -> %s" % (loc, f.name, callee.qualname.split(".", 1)[1] if "." in callee.qualname else callee.qualname)
                if callee.qualname in HOOK_METHODS_WILD:
                    out.setdefault((WILD, "hook@%s" % callee.qualname), ("%s (%s)" % (hop, HOOK_METHODS_WILD[callee.qualname]),))
                    if record:
                        self.wild_sites.append((loc, HOOK_METHODS_WILD[callee.qualname]))
                if self._is_generator(callee):
                    continue   # calling a generator function runs nothing
                for k, w in self.result.get(callee.qualname, {}).items():
                    out.setdefault(k, (hop,) + w)
            elif t.kind == "ctor":
                if record:
                    self.calls_classified["ctor"] += 1
            elif t.kind == "ext":
                self._ext(t.name, call, f, loc, out, record)
            else:   # dyn / unknown
                name = t.name or ""
                if name.startswith("attr:"):
                    attr = name[5:]
                    if attr in ATTR_RAISES:
                        if record:
                            self.calls_classified["ext_raises"] += 1
                        for c in ATTR_RAISES[attr]:
                            out.setdefault((c, "ext@%s:.%s" % (f.qualname, attr)), ("%s %s: .%s() may raise %s" % (loc, f.name, attr, c.split(".")[-1]),))
                        continue
                    if attr in ATTR_BENIGN and not (attr in OBJECT_VERBS and (isinstance(call.func.value, (ast.Subscript, ast.Call)) or
                                                                              (isinstance(call.func.value, ast.Name) and call.func.value.id in self._user_held_names(f)))):
                        # (an object verb - close, write, set ... - applied to an element of a container or to a call result is not known to be the
                        # socket / event / file the name suggests: `entry[3].close()` on a stream-table entry runs the user's iterator code)
                        if record:
                            self.calls_classified["ext_benign"] += 1
                        continue
                callee_txt = ast.unparse(call.func)
                if (f.qualname, callee_txt) in OWNER_CALLABLES:
                    if record:
                        self.calls_classified["ext_benign"] += 1
                    continue
                if record:
                    self.calls_classified["wild"] += 1
                    self.wild_sites.append((loc, "dynamic/unresolved call %s" % callee_txt))
                out.setdefault((WILD, "dyn@%s:%s" % (f.qualname, callee_txt)),
                               ("%s %s: call of %s runs user or third-party code" % (loc, f.name, callee_txt),))
        return out

    def _user_held_names(self, f):
        """locals of f that hold (parts of) entries of the daemon's stream table - the fourth element of such an entry is the user's iterator, so an object verb
        applied to one of these names (`stream.close()`) is user code, not a socket or an event"""
        got = getattr(f, "_user_held", None)
        if got is None:
            got = set()
            changed = True
            while changed:
                changed = False
                for n in walk_no_nested(f.node):
                    src, tgts = None, []
                    if isinstance(n, ast.Assign):
                        src, tgts = n.value, n.targets
                    elif isinstance(n, ast.For):
                        src, tgts = n.iter, [n.target]
                    if src is None:
                        continue
                    tainted = any((isinstance(x, ast.Attribute) and x.attr == "streaming_responses") or (isinstance(x, ast.Name) and x.id in got) for x in ast.walk(src))
                    if tainted:
                        for t in tgts:
                            for x in ast.walk(t):
                                if isinstance(x, ast.Name) and x.id not in got:
                                    got.add(x.id)
                                    changed = True
            f._user_held = got
        return got

    def _is_generator(self, fi):
        g = getattr(fi, "_is_gen", None)
        if g is None:
            g = False
            if not isinstance(fi.node, ast.Lambda):
                for n in walk_no_nested(fi.node):
                    if n is not fi.node and isinstance(n, (ast.Yield, ast.YieldFrom)):
                        g = True
                        break
            fi._is_gen = g
        return g

    def _ext(self, name, call, f, loc, out, record):
        if name.endswith("()()"):
            # the callee is a value returned by an external call (e.g. getattr(obj, name)(...)): arbitrary code
            if record:
                self.calls_classified["wild"] += 1
                self.wild_sites.append((loc, "call of a value returned by %s" % name[:-4]))
            out.setdefault((WILD, "dyn@%s:%s" % (f.qualname, ast.unparse(call.func))),
                           ("%s %s: call of a value obtained from %s runs user or third-party code" % (loc, f.name, name[:-4]),))
            return
        key = name
        if name == "builtins.getattr" and len(call.args) == 2:
            key = "builtins.getattr/2"
        if name == "builtins.next":
            # next(<local generator made from a package generator function>) is internal; anything else is wild
            arg = call.args[0] if call.args else None
            internal = False
            if isinstance(arg, ast.Name):
                for n in walk_no_nested(f.node):
                    if isinstance(n, ast.Assign) and any(isinstance(t, ast.Name) and t.id == arg.id for t in n.targets) \
                            and isinstance(n.value, ast.Call):
                        tg = self.cg.resolve_call(n.value, f)
                        if tg and all(t.kind == "fn" and self._is_generator(t.fn) for t in tg):
                            internal = True
                            for t in tg:
                                for k, w in self.result.get(t.fn.qualname, {}).items():
                                    out.setdefault(k, ("%s next(%s)" % (loc, arg.id),) + w)
            if not internal:
                if record:
                    self.calls_classified["wild"] += 1
                    self.wild_sites.append((loc, "next() on a user iterator"))
                out.setdefault((WILD, "next@%s" % f.qualname), ("%s %s: next() on a user-supplied iterator" % (loc, f.name),))
            return
        if key in EXT_RAISES:
            if record:
                self.calls_classified["ext_raises"] += 1
            for c in EXT_RAISES[key]:
                out.setdefault((c, "ext@%s:%s" % (f.qualname, name)), ("%s %s: %s may raise %s" % (loc, f.name, name, c.split(".")[-1]),))
            return
        last = name.rsplit(".", 1)[-1]
        if "()." in name or name.count(".") >= 1:
            # method on an external object: fall back to the method-name tables
            if last in ATTR_RAISES and not name.startswith("builtins."):
                if record:
                    self.calls_classified["ext_raises"] += 1
                for c in ATTR_RAISES[last]:
                    out.setdefault((c, "ext@%s:%s" % (f.qualname, name)), ("%s %s: %s may raise %s" % (loc, f.name, name, c.split(".")[-1]),))
                return
        if name.startswith(EXT_BENIGN_PREFIXES) or last in ATTR_BENIGN:
            if record:
                self.calls_classified["ext_benign"] += 1
            return
        if record:
            self.calls_classified["wild"] += 1
            self.unclassified_ext[name] = self.unclassified_ext.get(name, 0) + 1
        out.setdefault((WILD, "ext@%s:%s" % (f.qualname, name)), ("%s %s: unclassified external call %s" % (loc, f.name, name),))
