"""
/verif/bin/check <ID> [--tier quick|thorough] [--replay <path>] [--repo <dir>]

exit 0: every rule instance discharged (known findings printed as KNOWN-FINDING lines)
exit 1: `VIOLATION property=<id> replay=<path>` for each instance that is violated and not a listed known finding
exit 2: `ANALYSIS-ERROR ...` — the analysis itself cannot stand (anchor vanished, unparsable file, floor not met, traceback)
"""
import sys
import os
import time
import json
import argparse
import importlib
import traceback

HERE = os.path.dirname(os.path.abspath(__file__))
sys.path.insert(0, os.path.dirname(HERE))

from verif.engine.model import AnalysisError       # noqa: E402
from verif.engine.context import Ctx               # noqa: E402
from verif import report                           # noqa: E402

PROPERTIES = ["C%02d" % i for i in range(1, 21)]


def run_property(prop, repo, tier, ctx=None):
    """returns (Rules, Ctx, explanation)"""
    mod = importlib.import_module("verif.rules.%s" % prop.lower())
    if ctx is None:
        ctx = Ctx(repo)
    R = report.Rules(prop)
    ctx.__dict__["_shared_active"] = [prop]      # the property being decided takes no shared obligations from itself (report.run_shared)
    ctx.__dict__["_shared_cut"] = False
    try:
        mod.run(ctx, R, tier)
        R.finish()
    except AnalysisError as x:
        # what was established before the analysis stopped travels with the error: a violation found by a rule that completed is still a violation
        x.partial = (R, ctx, getattr(mod, "EXPLANATION", ""))
        raise
    finally:
        ctx.__dict__["_shared_active"] = []
    return R, ctx, getattr(mod, "EXPLANATION", "")


def classify(prop, R, known):
    """split violated obligations into (new violations, known findings)"""
    open_keys = {k["key"]: k for k in known.get("open", []) if k.get("property") == prop}
    new, kn = [], []
    for o in R.obs:
        if o.ok:
            continue
        if o.key in open_keys:
            kn.append((o, open_keys[o.key]))
        else:
            new.append(o)
    stale = [k for key, k in open_keys.items() if not any((not o.ok) and o.key == key for o in R.obs)]
    return new, kn, stale


def main(argv=None):
    ap = argparse.ArgumentParser()
    ap.add_argument("prop")
    ap.add_argument("--tier", default=os.environ.get("VERIF_TIER", "quick"), choices=["quick", "thorough"])
    ap.add_argument("--replay", default=None)
    ap.add_argument("--repo", default=os.environ.get("VERIF_REPO", "/repo"))
    ap.add_argument("--no-evidence", action="store_true")
    ap.add_argument("--no-selftest", action="store_true")
    args = ap.parse_args(argv)
    prop = args.prop.upper()
    t0 = time.time()
    try:
        seed = int(os.environ.get("VERIF_SEED", "0"))
    except ValueError:
        seed = 0
    try:
        if prop not in PROPERTIES:
            raise AnalysisError("unknown property %s" % prop)
        R, ctx, explanation = run_property(prop, args.repo, args.tier)
        known = report.load_known_findings()
        new, kn, stale = classify(prop, R, known)
        extra = {}
        if args.replay:
            with open(args.replay) as f:
                rep = json.load(f)
            key = rep["instance"]
            hit = [o for o in R.obs if o.key == key]
            if not hit:
                print("replay: instance %s no longer exists in the source" % key)
                return 0
            o = hit[0]
            print("replay: %s %s at %s: %s" % ("VIOLATED" if not o.ok else "discharged", o.key, o.loc, o.detail or o.desc))
            if not o.ok and o.key not in {k["key"] for k in known.get("open", [])}:
                print("VIOLATION property=%s replay=%s" % (prop, args.replay))
                return 1
            return 0
        if args.tier == "thorough" and not args.no_selftest:
            from verif.selftest import runner
            st = runner.run(prop, args.repo, seed)
            extra["selftest"] = st
            if st.get("disagreements"):
                raise AnalysisError("self-test disagreement: " + "; ".join(st["disagreements"][:5]))
        for o, k in kn:
            print("KNOWN-FINDING: property=%s %s [%s at %s]" % (prop, k.get("what", o.desc), o.key, o.loc))
        for k in stale:
            print("note: known finding no longer reproduces (fixed?): %s" % k["key"])
        paths = []
        for o in new:
            path = report.write_report(prop, o, args.repo)
            paths.append(path)
        wall = time.time() - t0
        if not args.no_evidence:
            extra["known_findings_matched"] = [k["key"] for _, k in kn]
            report.write_evidence(prop, args.tier, seed, R, ctx, wall, len(new), extra, explanation)
        n_ok = sum(1 for o in R.obs if o.ok)
        print("%s: %d rule instances over %d rules, %d discharged, %d known finding(s), %d violation(s) [%.2fs, tier=%s]"
              % (prop, len(R.obs), len(R.texts), n_ok, len(kn), len(new), wall, args.tier))
        for i, (o, path) in enumerate(zip(new, paths)):
            if i < 12:
                d = o.detail if len(o.detail) <= 420 else o.detail[:200] + " ... " + o.detail[-200:]
                print("  %s  %s  %s\n      %s" % (o.loc, o.key, o.desc, d))
            print("VIOLATION property=%s replay=%s" % (prop, path))
        return 1 if new else 0
    except AnalysisError as x:
        part = getattr(x, "partial", None)
        if part is not None and not str(x).startswith("self-test disagreement"):
            # some anchor of this property's rules no longer describes the code, so the analysis is incomplete - but rules that did complete found violations: those are
            # reported (exit 1); without any, the run stays what it is: not a verdict (exit 2)
            R, ctx, explanation = part
            new, kn, stale = classify(prop, R, report.load_known_findings())
            if new:
                print("note: the analysis of %s is incomplete on this tree (%s); the obligations below were decided before it stopped" % (prop, x))
                for i, o in enumerate(new):
                    path = report.write_report(prop, o, args.repo)
                    if i < 12:
                        d = o.detail if len(o.detail) <= 420 else o.detail[:200] + " ... " + o.detail[-200:]
                        print("  %s  %s  %s\n      %s" % (o.loc, o.key, o.desc, d))
                    print("VIOLATION property=%s replay=%s" % (prop, path))
                return 1
        print("ANALYSIS-ERROR property=%s %s" % (prop, x))
        return 2
    except Exception:
        print("ANALYSIS-ERROR property=%s internal error" % prop)
        traceback.print_exc()
        return 2


if __name__ == "__main__":
    sys.exit(main())
