"""
Clean-tree observation for C17 (not used as a seed): send_data in timeout mode with a memoryview whose items are
wider than one byte. sock.send() reports BYTES, but the remainder is computed with data[sent:], which for a wide
memoryview skips ITEMS. After a partial write most of the buffer is silently dropped and send_data returns normally.
(In blocking mode sendall() is used and everything arrives.) The annotation says 'data: bytes', so this is outside
the documented contract; bytes/bytearray/memoryview-of-bytes are all fine.
Exit code 0 = all bytes arrived, 1 = bytes were lost.
"""
import array
import os
import sys

sys.path.insert(0, os.path.join(os.path.dirname(os.path.abspath(__file__)), ".."))
from Pyro5 import socketutil   # noqa: E402


class PartialWriter:
    def __init__(self):
        self.accepted = bytearray()

    def gettimeout(self):
        return 2.0      # timeout mode: send_data uses its own send loop

    def send(self, data):
        chunk = bytes(data)[:8]       # the kernel takes only 8 bytes per call
        self.accepted.extend(chunk)
        return len(chunk)


wide = memoryview(array.array("I", range(10)))     # 10 items of 4 bytes = 40 bytes
sock = PartialWriter()
socketutil.send_data(sock, wide)
print("buffer: %d bytes, transmitted: %d bytes, send_data returned normally" % (wide.nbytes, len(sock.accepted)))
if bytes(sock.accepted) != wide.tobytes():
    print("LOST DATA: only", bytes(sock.accepted).hex(), "arrived")
    sys.exit(1)
print("all bytes arrived")
