"""
Observations on the UNCHANGED tree that look like violations of C05 (see CLEAN_TREE_OBSERVATIONS.md).
Prints what it sees; exit code 1 if at least one of the two observations reproduces, 0 otherwise.
"""
import os
import sys
import time
import zlib
import socket
import struct
import threading

sys.path.insert(0, os.path.abspath(os.path.join(os.path.dirname(os.path.abspath(__file__)), "..")))

from Pyro5 import config, protocol, serializers, core    # noqa: E402
import Pyro5.server                                      # noqa: E402
import Pyro5.client                                      # noqa: E402

MARSHAL = serializers.MarshalSerializer.serializer_id
HEADER = '!4sHBBHHII16sHH'


@Pyro5.server.expose
class Echo(object):
    def echo(self, x):
        return x

    def length(self, x):
        return len(x)


def header(msgtype, flags, seq, data_size, annotations_size):
    return struct.pack(HEADER, b"PYRO", protocol.PROTOCOL_VERSION, msgtype, MARSHAL, flags, seq,
                       data_size, annotations_size, b"\0" * 16, 0, 0x4dc5)


def recv_exact(s, n):
    buf = b""
    while len(buf) < n:
        chunk = s.recv(n - len(buf))
        if not chunk:
            raise OSError("closed by daemon after %d of %d bytes" % (len(buf), n))
        buf += chunk
    return buf


def recv_message(s):
    msg = protocol.ReceivingMessage(recv_exact(s, 40))
    msg.add_payload(recv_exact(s, msg.data_size + msg.annotations_size))
    return msg


def connect_raw(host, port, timeout=3):
    s = socket.create_connection((host, port), timeout=timeout)
    ser = serializers.serializers_by_id[MARSHAL]
    data = ser.dumps({"handshake": "hello", "object": core.DAEMON_NAME})
    s.sendall(protocol.SendingMessage(protocol.MSG_CONNECT, 0, 0, MARSHAL, data).data)
    msg = recv_message(s)
    if msg.type != protocol.MSG_CONNECTOK:
        s.close()
        raise OSError("handshake refused: %r" % bytes(msg.data)[-50:])
    return s


def start_daemon():
    daemon = Pyro5.server.Daemon(host="127.0.0.1", port=0)
    daemon.register(Echo(), "echo")
    host, port = daemon.locationStr.split(":")
    t = threading.Thread(target=daemon.requestLoop, daemon=True)
    t.start()
    time.sleep(0.2)
    return daemon, t, host, int(port)


def stop_daemon(daemon, t):
    threading.Thread(target=daemon.shutdown, daemon=True).start()
    t.join(5)
    config.reset()


def obs1_compressed_payload_bypasses_max_message_size():
    """MAX_MESSAGE_SIZE is checked against the header's length fields only; a FLAGS_COMPRESSED payload of a few KB
    is inflated without any bound (zlib.decompress in ReceivingMessage.add_payload) and then deserialised and executed."""
    limit = 256 * 1024
    inflated = 64 * limit      # 16 MB
    config.SERVERTYPE = "thread"
    config.MAX_MESSAGE_SIZE = limit
    daemon, t, host, port = start_daemon()
    try:
        ser = serializers.serializers_by_id[MARSHAL]
        call = ser.dumpsCall("echo", "length", ["x" * inflated], {})
        packed = zlib.compress(call, 9)
        s = connect_raw(host, port, timeout=10)
        s.sendall(header(protocol.MSG_INVOKE, protocol.FLAGS_COMPRESSED, 1, len(packed), 0) + packed)
        msg = recv_message(s)
        s.close()
        result = ser.loads(msg.data) if not (msg.flags & protocol.FLAGS_EXCEPTION) else None
        print("obs1: limit=%d bytes; sent %d compressed bytes that inflate to %d bytes; daemon executed the call, result=%r"
              % (limit, len(packed), len(call), result))
        return result == inflated
    except OSError as x:
        print("obs1: daemon refused:", x)
        return False
    finally:
        stop_daemon(daemon, t)


def obs2_denied_silent_client_blocks_accept_loop():
    """Thread server, no COMMTIMEOUT: when the pool is full the accept thread itself performs the 'denied' handshake
    (ClientConnectionJob.denyConnection -> Daemon._handshake -> recv). A client that connects at that moment and sends
    nothing parks the accept thread; no connection is accepted any more, also not after workers have become free again,
    for as long as the silent client stays."""
    config.SERVERTYPE = "thread"
    config.THREADPOOL_SIZE = 2
    config.THREADPOOL_SIZE_MIN = 1
    config.COMMTIMEOUT = 0.0
    daemon, t, host, port = start_daemon()
    try:
        good1 = connect_raw(host, port)
        good2 = connect_raw(host, port)          # pool is full now
        silent = socket.create_connection((host, port), timeout=3)   # will be 'denied', but never sends its handshake
        time.sleep(0.5)
        good1.close()
        good2.close()                            # both workers are free again
        time.sleep(0.5)
        pool = daemon.transportServer.pool
        print("obs2: busy workers now: %d, idle: %d" % (len(pool.busy), len(pool.idle)))
        try:
            s = connect_raw(host, port, timeout=3)
            s.close()
            print("obs2: new client served while the silent client is still connected")
            blocked = False
        except (OSError, socket.timeout) as x:
            print("obs2: new client NOT served although workers are free (%s: %s)" % (type(x).__name__, x))
            blocked = True
        silent.close()
        time.sleep(0.3)
        try:
            s = connect_raw(host, port, timeout=3)
            s.close()
            print("obs2: after the silent client left, a new client is served again")
        except (OSError, socket.timeout) as x:
            print("obs2: even after the silent client left: %s" % x)
        return blocked
    finally:
        stop_daemon(daemon, t)


if __name__ == "__main__":
    seen = [obs1_compressed_payload_bypasses_max_message_size(), obs2_denied_silent_client_blocks_accept_loop()]
    print("reproduced:", seen)
    sys.exit(1 if any(seen) else 0)
