"""
Observations on the UNCHANGED tree that look like (arguable) violations of C02.  Prints what happens; always exits 0.
"""
import functools
import os
import sys
import threading

sys.path.insert(0, os.path.abspath(os.path.join(os.path.dirname(os.path.abspath(__file__)), "..")))

import Pyro5.api          # noqa: E402
import Pyro5.client       # noqa: E402
import Pyro5.errors       # noqa: E402
import Pyro5.server       # noqa: E402

LOG = []


@Pyro5.server.expose
class Helper(object):
    def __call__(self, *args):
        LOG.append("Helper.__call__%r" % (args,))
        return "helper called"


@Pyro5.server.expose
class Owner(object):
    def __init__(self):
        self.helper = Helper()          # a plain instance attribute (nested helper object)

    def ping(self):
        return "pong"

    @functools.cached_property
    def expensive(self):
        LOG.append("expensive computed")
        return 42


class Dynamic(object):
    @Pyro5.server.expose
    def ping(self):
        return "pong"

    def __getattr__(self, name):
        LOG.append("Dynamic.__getattr__(%r)" % name)
        raise AttributeError(name)


class Counted(object):
    def __init__(self):
        LOG.append("Counted.__init__ ran")

    @Pyro5.server.expose
    def ping(self):
        return "pong"


class Base(object):
    @Pyro5.server.expose
    def ping(self):
        return "pong"


class Sub(Base):
    @Pyro5.server.expose
    def extra(self):
        return "extra"


def attempt(p, label, name, args=()):
    del LOG[:]
    try:
        r = p._pyroInvoke(name, args, {})
        print("  %-46s -> RESULT %r ; target log %r" % (label, r, LOG))
    except Exception as x:
        print("  %-46s -> %s: %s ; target log %r" % (label, type(x).__name__, str(x)[:60], LOG))


def main():
    daemon = Pyro5.server.Daemon(host="127.0.0.1", port=0)
    threading.Thread(target=daemon.requestLoop, daemon=True).start()
    dobj = daemon.objectsById[Pyro5.core.DAEMON_NAME]
    try:
        uri = daemon.register(Owner(), "owner")
        print("1+2. class-exposed object with a nested helper instance and a cached_property")
        print("  advertised:", {k: sorted(v) for k, v in dobj.get_metadata("owner").items()})
        with Pyro5.client.Proxy(uri) as p:
            p._pyroBind()
            attempt(p, "call 'helper' (plain instance attribute)", "helper", (1, 2))
            attempt(p, "call 'expensive' (advertised as a method)", "expensive")

        uri = daemon.register(Dynamic(), "dynamic")
        print("3. target class with a __getattr__ hook")
        with Pyro5.client.Proxy(uri) as p:
            p._pyroBind()
            attempt(p, "call 'no_such_member'", "no_such_member")

        Pyro5.server.behavior(instance_mode="percall")(Counted)
        uri = daemon.register(Counted, "counted")
        print("4. class registered percall: the instance is created before the name is checked")
        with Pyro5.client.Proxy(uri) as p:
            p._pyroBind()
            attempt(p, "call '_private'", "_private")

        Pyro5.server.behavior(instance_mode="session", instance_creator=lambda clazz: Sub())(Base)
        uri = daemon.register(Base, "base")
        print("5. instance_creator that returns an instance of a subclass")
        print("  advertised:", {k: sorted(v) for k, v in dobj.get_metadata("base").items()})
        with Pyro5.client.Proxy(uri) as p:
            p._pyroBind()
            attempt(p, "call 'extra' (not advertised)", "extra")
    finally:
        daemon.shutdown()


if __name__ == "__main__":
    main()
