"""
Clean-tree observation (C10): on the multiplex server, a daemon that is combined into another daemon's
request loop only gets its housekeeping done right AFTER one of its own socket events was handled
(svr_multiplex.loop() calls housekeeping for the looping daemon only when idle; events() calls it after
the batch). So a stream on the combined daemon that has outlived ITER_STREAM_LIFETIME while its
(connected, idle) client was away still serves ONE more item: the request is handled first, the expiry
comes after it. The statement says a client that comes back after the lifetime gets an error, never items.
Exit code 1 = observation reproduced, 0 = not reproduced.
"""
import os
import sys
import time
import threading

sys.path.insert(0, os.path.normpath(os.path.join(os.path.dirname(os.path.abspath(__file__)), "..")))

import Pyro5.api
import Pyro5.errors
from Pyro5 import config


@Pyro5.api.expose
class Source(object):
    def items(self):
        yield from ["a", "b", "c", "d"]


def late_item(daemon_for_object, loop_daemon):
    uri = daemon_for_object.register(Source(), "source")
    thread = threading.Thread(target=loop_daemon.requestLoop, daemon=True)
    thread.start()
    proxy = Pyro5.api.Proxy(uri)
    stream = proxy.items()
    assert next(stream) == "a"
    time.sleep(1.5)     # lifetime is 0.4s; the loop polls every 0.1s
    size = len(daemon_for_object.streaming_responses)
    try:
        item = next(stream)
    except Pyro5.errors.PyroError as x:
        item = None
    proxy._pyroRelease()
    loop_daemon.shutdown()
    return size, item


def main():
    config.SERVERTYPE = "multiplex"
    config.ITER_STREAM_LIFETIME = 0.4
    config.ITER_STREAM_LINGER = 30
    config.POLLTIMEOUT = 0.1
    config.COMMTIMEOUT = 0
    d = Pyro5.api.Daemon(host="127.0.0.1", port=0)
    size, item = late_item(d, d)
    print("plain daemon:    table size after 1.5s = %d, item after lifetime = %r" % (size, item))
    d1 = Pyro5.api.Daemon(host="127.0.0.1", port=0)
    d2 = Pyro5.api.Daemon(host="127.0.0.1", port=0)
    d1.combine(d2)
    size2, item2 = late_item(d2, d1)
    d2.close()
    print("combined daemon: table size after 1.5s = %d, item after lifetime = %r" % (size2, item2))
    if item2 is not None or size2:
        print("OBSERVED: the combined daemon kept the expired stream and served %r after its lifetime" % item2)
        sys.exit(1)
    print("not reproduced")


if __name__ == "__main__":
    main()
