"""
Cases where the UNCHANGED tree already violates C19 (see CLEAN_TREE_OBSERVATIONS.md).
Prints one block per observation; exits 0 always (it is a report, not a test).
"""
import os
import sys
import tempfile
import threading

sys.path.insert(0, os.path.abspath(os.path.join(os.path.dirname(os.path.abspath(__file__)), "..")))

import Pyro5.core
import Pyro5.client
import Pyro5.errors
import Pyro5.nameserver
import Pyro5.serializers
from Pyro5 import config

URI = Pyro5.core.URI

print("--- 1. PYROMETA uris cannot be hashed (state tuple holds a set)")
try:
    print("hash:", hash(URI("PYROMETA:a,b@nshost:9090")))
except TypeError as x:
    print("hash(URI('PYROMETA:a,b@nshost:9090')) ->", repr(x))
try:
    print("hash:", hash(Pyro5.client.Proxy("PYROMETA:a,b")))
except TypeError as x:
    print("hash(Proxy('PYROMETA:a,b')) ->", repr(x))

print("--- 2. PYROMETA uri through json / msgpack: tags come back as a list, uri != original")
u = URI("PYROMETA:a,b@nshost:9090")
for name, ser in sorted(Pyro5.serializers.serializers.items()):
    u2 = ser.loads(ser.dumps(u))
    print("%-8s equal=%s  object=%r" % (name, u2 == u, u2.object))

print("--- 3. PYROMETA with a trailing '@' (empty location): tag 'b@'; the text form depends on set order and may parse to another uri")
found = False
for i in range(200):
    text = "PYROMETA:a%d,b%d@" % (i, i)
    u = URI(text)
    try:
        again = URI(str(u))
        same = again == u
    except Pyro5.errors.PyroError as x:
        again, same = x, False
    if not same:
        print("URI(%r): tags=%r text=%r -> reparsed: %r" % (text, u.object, str(u), again if isinstance(again, Exception) else again.__getstate__()))
        found = True
        break
print("found a violating instance in this process:", found, "(depends on the hash seed; PYRONAME:x@ keeps object 'x@' and is stable)")

print("--- 4. the Pyro4 compatibility URI / Proxy classes cannot pass any serializer")
from Pyro5.compatibility import Pyro4
for name, ser in sorted(Pyro5.serializers.serializers.items()):
    for obj in (Pyro4.URI("PYRO:o@h:1"), Pyro4.Proxy("PYRO:o@h:1")):
        try:
            ser.loads(ser.dumps(obj))
            print("%-8s %s ok" % (name, type(obj).__name__))
        except Exception as x:
            print("%-8s %s -> %s: %s" % (name, type(obj).__name__, type(x).__name__, x))

print("--- 5. the broadcast reply is read with recvfrom(100): a name server uri whose text is longer is cut off and parses to another location")
longhost = ("ns." + ".".join(["department%d" % i for i in range(7)]) + ".example.com")[-75:]   # 75 chars: the cut falls inside the port
nsuri = URI("PYRO:%s@%s:19090" % (Pyro5.core.NAMESERVER_NAME, longhost))
print("name server uri: %s (%d chars)" % (nsuri, len(str(nsuri))))
bc = Pyro5.nameserver.BroadcastServer(nsuri, bchost="127.0.0.1", bcport=0)
t = threading.Thread(target=bc.processRequest)
t.daemon = True
t.start()
old = config.BROADCAST_ADDRS, config.NS_HOST
config.BROADCAST_ADDRS = ["127.0.0.1"]
config.NS_HOST = "nowhere.invalid"     # so that locate_ns goes straight to the broadcast lookup
try:
    proxy = Pyro5.core.locate_ns(port=bc.getPort())
    print("locate_ns() returned a proxy for: %s   equal to the name server's uri: %s" % (proxy._pyroUri, proxy._pyroUri == nsuri))
except Exception as x:
    print("locate_ns() ->", type(x).__name__, x)
finally:
    config.BROADCAST_ADDRS, config.NS_HOST = old
    bc.close()

print("--- 6. resolve() hands only uri.host and uri.port to locate_ns: the unix socket location of a PYRONAME / PYROMETA uri is ignored")
tmp = tempfile.mkdtemp()
sockname = os.path.join(tmp, "ns.sock")
nsUri, nsdaemon, _ = Pyro5.nameserver.start_ns(unixsocket=sockname)
nsdaemon.nameserver.register("thing", "PYRO:thing@thinghost:4444")
t = threading.Thread(target=nsdaemon.requestLoop)
t.daemon = True
t.start()
old = config.NS_PORT, config.BROADCAST_ADDRS, config.NS_BCPORT
config.NS_PORT, config.BROADCAST_ADDRS, config.NS_BCPORT = 1, ["127.0.0.1"], 1     # nothing listens there
try:
    with Pyro5.client.Proxy(nsUri) as direct:
        print("asking the name server on %s directly: thing -> %s" % (nsUri.location, direct.lookup("thing")))
    try:
        print("resolve('PYRONAME:thing@./u:%s') -> %s" % (sockname, Pyro5.core.resolve("PYRONAME:thing@./u:" + sockname)))
    except Exception as x:
        print("resolve('PYRONAME:thing@./u:%s') -> %s: %s   (it looked for a name server on localhost / by broadcast instead)" % (sockname, type(x).__name__, x))
finally:
    config.NS_PORT, config.BROADCAST_ADDRS, config.NS_BCPORT = old
    nsdaemon.shutdown()
    nsdaemon.close()
