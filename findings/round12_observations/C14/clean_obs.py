"""
Observations on the UNCHANGED tree (see CLEAN_TREE_OBSERVATIONS.md).  Prints one line per observation
('REPRODUCED' / 'not reproduced'), always exits 0.
"""
import os
import sys
import time
import shutil
import socket
import tempfile

sys.path.insert(0, os.path.abspath(os.path.join(os.path.dirname(__file__), "..")))

from Pyro5 import config                                                        # noqa: E402
from Pyro5.nameserver import NameServer, MemoryStorage, SqlStorage, AutoCleaner  # noqa: E402
from Pyro5.errors import NamingError                                            # noqa: E402


def both(tmpdir, tag):
    return {"memory": NameServer(MemoryStorage()), "sqlite": NameServer(SqlStorage(os.path.join(tmpdir, tag + ".sqlite")))}


def obs1_aliasing(tmpdir):
    out = {}
    for label, ns in both(tmpdir, "o1").items():
        ns.register("a", "PYRO:a@h:1", metadata={"t1"})
        ns.list(return_metadata=True)["a"][1].add("injected-via-list")
        ns.yplookup(meta_any={"t1"})["a"][1].add("injected-via-yplookup")
        out[label] = sorted(ns.lookup("a", return_metadata=True)[1])
    print("obs1  tags of 'a' after mutating the RESULTS of list()/yplookup():", out)
    print("obs1  %s: the in-memory back-end hands out its own tag sets, the two back-ends are distinguishable"
          % ("REPRODUCED" if out["memory"] != out["sqlite"] else "not reproduced"))


def obs2_nul(tmpdir):
    out = {}
    for label, ns in both(tmpdir, "o2").items():
        ns.register("n\x00b", "PYRO:nb@h:1")
        ns.register("n\x00c", "PYRO:nc@h:1")
        listed = sorted(ns.list(prefix="n\x00b"))
        removed = ns.remove(prefix="n\x00")
        out[label] = (listed, removed, sorted(ns.list()))
    print("obs2  names with U+0000: (list(prefix='n\\0b'), remove(prefix='n\\0'), names left) =", out)
    print("obs2  %s: sqlite substr() stops at the NUL character, prefixes reaching beyond it never match"
          % ("REPRODUCED" if out["memory"] != out["sqlite"] else "not reproduced"))


def obs3_surrogate(tmpdir):
    out = {}
    for label, ns in both(tmpdir, "o3").items():
        try:
            ns.register("s\ud800", "PYRO:s@h:1")
            ns.lookup("s\ud800")
            out[label] = "accepted"
        except Exception as x:
            out[label] = type(x).__name__
    print("obs3  register/lookup of a name with a lone surrogate:", out)
    print("obs3  %s: memory accepts it, sqlite fails with a non-Naming error" % ("REPRODUCED" if out["memory"] != out["sqlite"] else "not reproduced"))


def obs4_autoclean_stale_mark():
    dead = socket.socket(socket.AF_INET, socket.SOCK_STREAM)
    dead.bind(("127.0.0.1", 0))     # bound, not listening: connection refused
    dead_uri = "PYRO:svc@127.0.0.1:%d" % dead.getsockname()[1]
    saved = (config.NS_AUTOCLEAN, config.COMMTIMEOUT, AutoCleaner.max_unreachable_time, AutoCleaner.loop_delay, AutoCleaner.override_autoclean_min)
    config.NS_AUTOCLEAN, config.COMMTIMEOUT = 0.05, 0.5
    AutoCleaner.max_unreachable_time, AutoCleaner.loop_delay, AutoCleaner.override_autoclean_min = 2.0, 0.05, True
    ns = NameServer()
    cleaner = AutoCleaner(ns)
    cleaner.start()
    try:
        ns.register("svc", dead_uri)
        time.sleep(0.5)                 # marked unreachable
        ns.remove("svc")                # the USER removes it; the cleaner's mark stays behind
        time.sleep(2.5)
        ns.register("svc", dead_uri)    # registered anew, server not up yet
        time.sleep(0.5)                 # a quarter of the grace time
        try:
            ns.lookup("svc")
            gone = False
        except NamingError:
            gone = True
        print("obs4  fresh registration after 0.5s of a 2.0s grace time: %s" % ("already auto-cleaned" if gone else "still there"))
        print("obs4  %s: AutoCleaner.unreachable keeps the mark of a name the user removed; a later registration of the "
              "same name inherits the old timestamp" % ("REPRODUCED" if gone else "not reproduced"))
    finally:
        cleaner.stop = True
        cleaner.join(5)
        (config.NS_AUTOCLEAN, config.COMMTIMEOUT, AutoCleaner.max_unreachable_time, AutoCleaner.loop_delay, AutoCleaner.override_autoclean_min) = saved
        dead.close()


def main():
    tmpdir = tempfile.mkdtemp(prefix="c14-cleanobs-")
    try:
        obs1_aliasing(tmpdir)
        obs2_nul(tmpdir)
        obs3_surrogate(tmpdir)
        obs4_autoclean_stale_mark()
    finally:
        shutil.rmtree(tmpdir, ignore_errors=True)


if __name__ == "__main__":
    main()
