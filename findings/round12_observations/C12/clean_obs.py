"""
Clean-tree observation for C12 (NOT a seed): the thread-local current_context.response_annotations
is shared between the server role and the client role of a thread.

A front method that sets NO response annotation itself, but makes a nested remote call, sends the
annotations of the NESTED call's reply (set by the backend method for the front, i.e. for a
different call and a different client) on to its own caller.  Conversely a response annotation
the front method set BEFORE the nested call is silently dropped (Proxy.__init__ / _pyroInvoke
reset the shared slot).

Prints what is observed; exits 1 if the behaviour is present (it is, on the unchanged tree), 0 if not.
"""
import os
import sys
import threading

sys.path.insert(0, os.path.abspath(os.path.join(os.path.dirname(os.path.abspath(__file__)), "..")))

from Pyro5 import config, server, client            # noqa: E402
from Pyro5.callcontext import current_context       # noqa: E402


@server.expose
class Backend(object):
    def secret_for_front(self):
        current_context.response_annotations["BKND"] = b"backend-to-front-only"
        return 1


@server.expose
class Front(object):
    backend_uri = None

    def relay(self):
        # sets no response annotation of its own
        with client.Proxy(self.backend_uri) as b:
            return b.secret_for_front()

    def tag_then_call(self):
        current_context.response_annotations["MINE"] = b"front-annotation"
        with client.Proxy(self.backend_uri) as b:
            return b.secret_for_front()


def main():
    config.SERVERTYPE = "thread"
    bd = server.Daemon(host="localhost", port=0)
    fd = server.Daemon(host="localhost", port=0)
    Front.backend_uri = bd.register(Backend(), "backend")
    furi = fd.register(Front(), "front")
    loops = [threading.Thread(target=d.requestLoop, daemon=True) for d in (bd, fd)]
    for t in loops:
        t.start()
    found = False
    try:
        with client.Proxy(furi) as p:
            p.relay()
            ann = {k: bytes(v) for k, v in current_context.response_annotations.items()}
            print("reply to relay() (front set nothing) carries:", ann)
            if "BKND" in ann:
                found = True
                print("  -> the annotation the backend set on ITS reply to the front reached the front's client")
            p.tag_then_call()
            ann = {k: bytes(v) for k, v in current_context.response_annotations.items()}
            print("reply to tag_then_call() (front set MINE before the nested call) carries:", ann)
            if "MINE" not in ann:
                print("  -> the front's own annotation was dropped by the nested call")
            if "BKND" in ann:
                found = True
    finally:
        for d in (fd, bd):
            d.shutdown()
        for t in loops:
            t.join(10)
        for d in (fd, bd):
            d.close()
    sys.exit(1 if found else 0)


if __name__ == "__main__":
    main()
