"""
Clean-tree observations for C08 (UNCHANGED tree): a refusing validator after which the peer does NOT receive a
connect failure carrying the reason (the connection is closed and nothing is executed, so only that clause is hit).
Prints what the peer saw for each case; exits 0 always (it is a report, not a check).
"""
import os
import sys
import socket
import threading
import time

sys.path.insert(0, os.path.abspath(os.path.join(os.path.dirname(__file__), "..")))

from Pyro5 import config, protocol, serializers, server, socketutil, errors   # noqa: E402

EXECUTED = []


@server.expose
class Thing(object):
    def touch(self):
        EXECUTED.append(1)
        return "touched"


class ClosedErrorDaemon(server.Daemon):
    def validateHandshake(self, conn, data):
        raise errors.ConnectionClosedError("client certificate was revoked")    # a CommunicationError, like examples/ssl uses


class EchoingDaemon(server.Daemon):
    def validateHandshake(self, conn, data):
        raise ValueError("unknown user %s" % data)       # echoes what the peer sent


def run(daemonclass, sername, token):
    del EXECUTED[:]
    daemon = daemonclass(host="127.0.0.1", port=0)
    daemon.register(Thing(), "thing")
    host, port = daemon.locationStr.split(":")
    t = threading.Thread(target=daemon.requestLoop, daemon=True)
    t.start()
    time.sleep(0.1)
    ser = serializers.serializers[sername]
    sock = socket.create_connection((host, int(port)))
    sock.settimeout(2)
    if sername == "json":
        # hand-written json, so that the \udc80 escape (a lone surrogate, legal json) can be put on the wire
        data = ('{"handshake": "%s", "object": "thing"}' % token.encode("ascii", "backslashreplace").decode("ascii")).encode("ascii")
    else:
        data = ser.dumps({"handshake": token, "object": "thing"})
    sock.sendall(protocol.SendingMessage(protocol.MSG_CONNECT, 0, 1, ser.serializer_id, data).data +
                 protocol.SendingMessage(protocol.MSG_INVOKE, 0, 2, ser.serializer_id, ser.dumpsCall("thing", "touch", [], {})).data)
    conn = socketutil.SocketConnection(sock, keep_open=True)
    try:
        msg = protocol.recv_stub(conn)
        seen = "reply type %d: %r" % (msg.type, serializers.serializers_by_id[msg.serializer_id].loads(msg.data))
    except errors.ConnectionClosedError as x:
        seen = "NO REPLY, connection closed (%s)" % x
    except errors.TimeoutError:
        seen = "NO REPLY, connection still open"
    sock.close()
    time.sleep(0.1)
    daemon.shutdown()
    t.join(5)
    return seen, list(EXECUTED)


if __name__ == "__main__":
    config.SERVERTYPE = "thread"
    print("validator raises ConnectionClosedError      ->", run(ClosedErrorDaemon, "serpent", "x"))
    print("reason contains a lone surrogate, json      ->", run(EchoingDaemon, "json", "bob\udc80"))
    print("control: same reason, marshal               ->", run(EchoingDaemon, "marshal", "bob\udc80"))
    print("control: ordinary reason, json              ->", run(EchoingDaemon, "json", "bob"))
