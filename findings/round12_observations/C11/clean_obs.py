"""
Observations on the UNCHANGED tree where a batch does not behave like the same calls made one after another.
Prints what it sees; exit code is the number of deviations observed (0 = none reproduced).
"""
import os
import sys
import threading

sys.path.insert(0, os.path.abspath(os.path.join(os.path.dirname(os.path.abspath(__file__)), "..")))

import Pyro5.api          # noqa: E402
import Pyro5.client       # noqa: E402
import Pyro5.server       # noqa: E402
from Pyro5 import config  # noqa: E402

config.COMMTIMEOUT = 20


@Pyro5.api.expose
@Pyro5.api.behavior(instance_mode="percall")
class PerCallCounter(object):
    def __init__(self):
        self.n = 0

    def inc(self):
        self.n += 1
        return self.n


@Pyro5.api.expose
class Thing(object):
    def __init__(self):
        self.log = []

    def add(self, x):
        self.log.append(x)
        return len(self.log)

    @Pyro5.api.oneway
    def fire(self, x):
        self.log.append(x)
        return "fired"

    def unserializable(self):
        self.log.append("unserializable")
        return threading.Lock()      # no serializer can transport this

    def history(self):
        return list(self.log)


def main():
    daemon = Pyro5.server.Daemon(host="127.0.0.1", port=0)
    thread = threading.Thread(target=daemon.requestLoop, daemon=True)
    thread.start()
    deviations = 0
    try:
        # 1. percall instance mode: one instance serves the whole batch, sequential calls get a fresh instance each
        uri = daemon.register(PerCallCounter)
        with Pyro5.client.Proxy(uri) as p:
            seq = [p.inc(), p.inc(), p.inc()]
            b = Pyro5.client.BatchProxy(p)
            b.inc(), b.inc(), b.inc()
            bat = list(b())
        print("1. percall: sequential %r, batch %r" % (seq, bat))
        deviations += seq != bat

        # 2. a @oneway method inside a batch runs synchronously and returns its real result
        t1, t2 = Thing(), Thing()
        u1, u2 = daemon.register(t1), daemon.register(t2)
        with Pyro5.client.Proxy(u1) as p1, Pyro5.client.Proxy(u2) as p2:
            seq = [p1.add(1), p1.fire(2)]
            b = Pyro5.client.BatchProxy(p2)
            b.add(1), b.fire(2)
            bat = list(b())
        print("2. oneway method: sequential %r, batch %r" % (seq, bat))
        deviations += seq != bat

        # 3. a result that cannot be serialized: sequentially the caller gets the error at that call and stops;
        #    in a batch the calls AFTER it are still executed, and all results are lost
        t3, t4 = Thing(), Thing()
        u3, u4 = daemon.register(t3), daemon.register(t4)
        with Pyro5.client.Proxy(u3) as p3, Pyro5.client.Proxy(u4) as p4:
            try:
                p3.add(1), p3.unserializable(), p3.add(3)
            except Exception as x:
                print("3. sequential stops with %s" % type(x).__name__)
            b = Pyro5.client.BatchProxy(p4)
            b.add(1), b.unserializable(), b.add(3)
            try:
                print("3. batch results %r" % list(b()))
            except Exception as x:
                print("3. batch raises %s on submission" % type(x).__name__)
            s3, s4 = p3.history(), p4.history()
        print("3. state sequential %r, batch %r" % (s3, s4))
        deviations += s3 != s4

        # 4. an argument that cannot be serialized at position k: sequentially the prefix is executed, the batch executes nothing
        t5, t6 = Thing(), Thing()
        u5, u6 = daemon.register(t5), daemon.register(t6)
        with Pyro5.client.Proxy(u5) as p5, Pyro5.client.Proxy(u6) as p6:
            try:
                p5.add(1), p5.add(threading.Lock()), p5.add(3)
            except Exception as x:
                print("4. sequential stops with %s" % type(x).__name__)
            b = Pyro5.client.BatchProxy(p6)
            b.add(1), b.add(threading.Lock()), b.add(3)
            try:
                list(b())
            except Exception as x:
                print("4. batch raises %s on submission" % type(x).__name__)
            s5, s6 = p5.history(), p6.history()
        print("4. state sequential %r, batch %r" % (s5, s6))
        deviations += s5 != s6
    finally:
        daemon.shutdown()
        thread.join(5)
        daemon.close()
    print("deviations observed: %d" % deviations)
    sys.exit(deviations)


if __name__ == "__main__":
    main()
