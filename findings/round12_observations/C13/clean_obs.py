"""
Observations on the UNCHANGED tree (not used as seeds). Prints what it sees; always exits 0.

 1. Two distinct resources that compare equal (same __eq__/__hash__) are tracked as ONE
    (tracked_resources is a WeakSet): the second one is never closed when the connection ends.
 2. Thread server: a remote method that raises SystemExit (e.g. calls sys.exit()) ends the connection;
    hook and close do run (finally-block), but the worker thread dies without Pool.notify_done,
    so the worker stays in pool.busy forever (worker slot never released).
"""
import os
import sys
import time
import threading

sys.path.insert(0, os.path.abspath(os.path.join(os.path.dirname(__file__), "..")))

import Pyro5.api            # noqa: E402
import Pyro5.server         # noqa: E402
from Pyro5 import config    # noqa: E402
from Pyro5.callcontext import current_context   # noqa: E402

config.SERVERTYPE = "thread"
config.POLLTIMEOUT = 0.2


class Handle(object):
    """a resource identified by its name: equal names compare equal"""
    def __init__(self, name):
        self.name = name
        self.closes = 0

    def __eq__(self, other):
        return isinstance(other, Handle) and other.name == self.name

    def __hash__(self):
        return hash(self.name)

    def close(self):
        self.closes += 1


@Pyro5.api.expose
@Pyro5.api.behavior(instance_mode="single")
class Service(object):
    def __init__(self):
        self.handles = []

    def open(self, name):
        h = Handle(name)
        self.handles.append(h)
        current_context.track_resource(h)

    def quit(self):
        sys.exit(0)


class D(Pyro5.server.Daemon):
    hooks = 0

    def clientDisconnect(self, conn):
        D.hooks += 1


daemon = D(host="127.0.0.1", port=0)
svc = Service()
uri = daemon.register(svc, "svc")
threading.Thread(target=daemon.requestLoop, daemon=True).start()
pool = daemon.transportServer.pool

with Pyro5.api.Proxy(uri) as p:
    p.open("same-name")
    p.open("same-name")
time.sleep(0.3)
print("1. closes of two equal-but-distinct tracked resources after disconnect:", [h.closes for h in svc.handles],
      "(property would want [1, 1])")

p = Pyro5.api.Proxy(uri)
p._pyroTimeout = 2
try:
    p.quit()
except Exception as x:
    print("2. client sees:", type(x).__name__, x)
time.sleep(0.5)
dead = [w for w in pool.busy if not w.is_alive()]
print("2. after a method raised SystemExit: hook calls=%d, pool busy=%d idle=%d, dead workers still counted busy=%d"
      % (D.hooks, len(pool.busy), len(pool.idle), len(dead)))
daemon.shutdown()
