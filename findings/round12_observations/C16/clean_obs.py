"""
Clean-tree observations for C16 (unchanged Pyro5): each block prints what it saw.
Exits 0 always; lines starting with 'OBSERVED' are deviations from the stated property.
"""
import os
import sys
import threading

sys.path.insert(0, os.path.abspath(os.path.join(os.path.dirname(os.path.abspath(__file__)), "..")))

import Pyro5.api
import Pyro5.client
import Pyro5.errors
import Pyro5.server
import Pyro5.serializers


@Pyro5.server.expose
class Thing(object):
    def __init__(self, name):
        self.name = name

    def whoami(self):
        return self.name


@Pyro5.server.expose
class Registry(dict):
    def size(self):
        return len(self)


@Pyro5.server.expose
class Holder(object):
    slot = None

    def give(self):
        return Holder.slot


Thing.__module__ = Registry.__module__ = "c16obs"
Pyro5.serializers.SerializerBase.register_dict_to_class("c16obs.Thing", lambda cn, d: Thing(d["name"]))


def kind(result):
    return "proxy" if isinstance(result, Pyro5.client.Proxy) else "value(%s)" % type(result).__name__


def main():
    d = Pyro5.server.Daemon(host="127.0.0.1", port=0)
    huri = d.register(Holder(), "holder")
    t = threading.Thread(target=d.requestLoop, daemon=True)
    t.start()
    try:
        # 1. unregister(old) after the id of old was taken over removes the NEW owner's registration
        old, new = Thing("old"), Thing("new")
        d.register(old, "one")
        d.register(new, "one", force=True)
        d.unregister(old)
        print("1. unregister(old) after register(new, same id, force=True): id still registered: %s" % ("one" in d.objectsById))
        if "one" not in d.objectsById:
            print("OBSERVED 1: unregistering an object that no longer owns its id unregisters the object that does"
                  " (new keeps _pyroId=%r but is unreachable)" % getattr(new, "_pyroId", None))

        # 2. unregister(instance) of a registered class, the instance itself never registered
        d.register(Thing, "two.class")
        inst = Thing("instance")
        try:
            d.unregister(inst)
            outcome = "returned normally"
        except Exception as x:
            outcome = "raised %s: %s" % (type(x).__name__, x)
        print("2. unregister(never-registered instance of a registered class) %s; class still registered: %s" % (outcome, "two.class" in d.objectsById))
        if "two.class" not in d.objectsById:
            print("OBSERVED 2: the CLASS registration was removed through an instance that was never registered")
            for attr in ("_pyroId", "_pyroDaemon"):
                if attr in vars(Thing):
                    delattr(Thing, attr)

        # 3. an object registered under two ids (force), the later id unregistered by id
        twice = Thing("twice")
        d.register(twice, "three.a")
        d.register(twice, "three.b", force=True)
        d.unregister("three.b")
        Holder.slot = twice
        with Pyro5.api.Proxy(huri) as hp:
            k = kind(hp.give())
        with Pyro5.api.Proxy(d.uriFor("three.a")) as p:
            reach = p.whoami()
        try:
            d.uriFor(twice)
            u = "ok"
        except Pyro5.errors.DaemonError as x:
            u = "DaemonError: %s" % x
        print("3. still registered as three.a (call reaches %r) but returned as %s; uriFor(obj): %s" % (reach, k, u))
        if k != "proxy":
            print("OBSERVED 3: an object still registered (under its first id) travels by value and has no uri")

        # 4. uriFor / proxyFor(old object) whose stale id was re-used by another object
        a, b = Thing("a"), Thing("b")
        d.register(a, "four")
        d.unregister("four")
        d.register(b, "four")
        try:
            with d.proxyFor(a) as p:
                print("4. proxyFor(a) after a's id was re-used by b: calls reach %r" % p.whoami())
                print("OBSERVED 4: proxyFor/uriFor(unregistered object) hand out the uri of the id's new owner")
        except Pyro5.errors.DaemonError as x:
            print("4. proxyFor(a) refused:", x)

        # 5. a registered object whose type json/msgpack serialize natively (dict subclass) is never auto-proxied
        reg = Registry(x=1)
        d.register(reg, "five")
        Holder.slot = reg
        seen = {}
        for ser in ("serpent", "json", "msgpack"):
            if ser in Pyro5.serializers.serializers:
                with Pyro5.api.Proxy(huri) as hp:
                    hp._pyroSerializer = ser
                    seen[ser] = kind(hp.give())
        print("5. registered dict-subclass servant returned:", seen)
        if len(set(seen.values())) > 1:
            print("OBSERVED 5: auto-proxying depends on the serializer for servants that are dict/list subclasses")

        # 6. SerializerBase.unregister_class_to_dict(T) removes serpent's auto-proxy hook of a registered T
        c = Thing("c")
        d.register(c, "six")
        Holder.slot = c
        Pyro5.serializers.SerializerBase.register_class_to_dict(Thing, lambda o: {"__class__": "c16obs.Thing", "name": o.name})
        Pyro5.serializers.SerializerBase.unregister_class_to_dict(Thing)
        with Pyro5.api.Proxy(huri) as hp:
            k = kind(hp.give())
        print("6. registered object returned (serpent) after register/unregister_class_to_dict of its class:", k)
        if k != "proxy":
            print("OBSERVED 6: the class_to_dict registry calls clobber/remove the daemon's serpent auto-proxy hook")
    finally:
        d.shutdown()
        t.join(5)


if __name__ == "__main__":
    main()
