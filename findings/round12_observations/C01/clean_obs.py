"""
Observations on the UNCHANGED tree (not used as seeds). Prints what it sees; exits 0 always.
"""
import os
import sys
import threading

sys.path.insert(0, os.path.normpath(os.path.join(os.path.dirname(os.path.abspath(__file__)), "..")))

import Pyro5.client                 # noqa: E402
import Pyro5.protocol as P          # noqa: E402
import Pyro5.server                 # noqa: E402
from Pyro5 import config            # noqa: E402
from Pyro5.serializers import serializers   # noqa: E402


def show(label, func):
    try:
        print("  %-62s -> %r" % (label, func()))
    except Exception as x:
        print("  %-62s -> raised %s: %s" % (label, type(x).__name__, x))


print("1. SerializedBlob.deserialized() of a received call message, per serializer (data sent: {'a': 1} / 'abc')")
for name, ser in serializers.items():
    for data in ({"a": 1}, "abc"):
        def blob_roundtrip():
            payload = ser.dumpsCall("obj", "meth", data, {})        # what Proxy.__serializeBlobArgs does with blob._data
            sm = P.SendingMessage(P.MSG_INVOKE, 0, 1, ser.serializer_id, payload)
            rm = P.ReceivingMessage(sm.data[:40], sm.data[40:])
            return Pyro5.client.SerializedBlob("info", rm, is_blob=True).deserialized()
        show("%s blob %r" % (name, data), blob_roundtrip)

print("2. SerializedBlob.deserialized() of a SendingMessage that has annotations or is compressed")
ser = serializers["serpent"]
payload = ser.dumpsCall("obj", "meth", ["x" * 300], {})
show("plain", lambda: Pyro5.client.SerializedBlob("i", P.SendingMessage(P.MSG_INVOKE, 0, 1, ser.serializer_id, payload), True).deserialized()[0][:5])
show("with annotation", lambda: Pyro5.client.SerializedBlob("i", P.SendingMessage(P.MSG_INVOKE, 0, 1, ser.serializer_id, payload, {"ABCD": b"zz"}), True).deserialized()[0][:5])
config.COMPRESSION = True
try:
    show("compressed", lambda: Pyro5.client.SerializedBlob("i", P.SendingMessage(P.MSG_INVOKE, 0, 1, ser.serializer_id, payload), True).deserialized()[0][:5])
finally:
    config.COMPRESSION = False

print("3. dict keys that are not strings, per serializer: loads(dumps(v))")
for name, ser in serializers.items():
    for v in ({1: "one"}, {1.5: 1}, {True: 1}, {None: 1}, {(1, 2): 3}):
        show("%s %r" % (name, v), lambda: ser.loads(ser.dumps(v)))

print("3b. an int of 5000 digits, per serializer")
for name, ser in serializers.items():
    show("%s 10**5000" % name, lambda: ser.loads(ser.dumps(10 ** 5000)) == 10 ** 5000)

print("4. the same through a daemon with msgpack: the request is sent, the server cannot decode it")


@Pyro5.server.expose
class Echo(object):
    def echo(self, v):
        return v


daemon = Pyro5.server.Daemon(host="localhost", port=0)
uri = daemon.register(Echo(), "echo")
t = threading.Thread(target=daemon.requestLoop, daemon=True)
t.start()
try:
    if "msgpack" in serializers:
        with Pyro5.client.Proxy(uri) as p:
            p._pyroSerializer = "msgpack"
            show("msgpack echo({1: 'one'})", lambda: p.echo({1: "one"}))
            show("msgpack echo({'1': 'one'})", lambda: p.echo({"1": "one"}))
finally:
    daemon.shutdown()
    t.join(5)
