"""
Clean-tree observation for C09: with instance_mode='percall' the calls inside ONE batch request all share one instance
(the instance is looked up once per request message, not once per call).  Exits 0 always; it only prints what it sees.
"""
import os
import sys
import threading

sys.path.insert(0, os.path.abspath(os.path.join(os.path.dirname(os.path.abspath(__file__)), "..")))

import Pyro5.api          # noqa: E402
import Pyro5.server       # noqa: E402

constructed = []


@Pyro5.api.behavior(instance_mode="percall")
class PerCall(object):
    def __init__(self):
        constructed.append(self)
        self.serial = len(constructed)
        self.calls = 0

    @Pyro5.api.expose
    def hit(self):
        self.calls += 1
        return self.serial, self.calls


def main():
    daemon = Pyro5.server.Daemon(host="127.0.0.1", port=0)
    uri = daemon.register(PerCall, "percall")
    threading.Thread(target=daemon.requestLoop, daemon=True).start()
    try:
        with Pyro5.api.Proxy(uri) as p:
            plain = [p.hit(), p.hit(), p.hit()]
            batch = Pyro5.api.BatchProxy(p)
            batch.hit()
            batch.hit()
            batch.hit()
            batched = list(batch())
    finally:
        daemon.shutdown()
    print("3 plain calls   -> (instance#, calls seen by that instance):", plain)
    print("3 batched calls -> (instance#, calls seen by that instance):", batched)
    if len({s for s, _ in batched}) == 1:
        print("OBSERVED: the three calls of one batch were served by the SAME percall instance (state carried over: %r)"
              % [c for _, c in batched])


if __name__ == "__main__":
    main()
