"""
Observations on the UNCHANGED tree that already look like violations of C18 (see CLEAN_TREE_OBSERVATIONS.md).
Prints what it sees; exits 0 always (it is a report, not a test).
"""
import os
import sys
import socket
import threading
import time

sys.path.insert(0, os.path.abspath(os.path.join(os.path.dirname(os.path.abspath(__file__)), "..")))

from Pyro5 import config, svr_threads       # noqa: E402
import Pyro5.server                         # noqa: E402
import Pyro5.client                         # noqa: E402


class Job(object):
    def __init__(self, body=None):
        self.runs = 0
        self.body = body

    def __call__(self):
        self.runs += 1
        if self.body:
            self.body()


def live_workers():
    return [t for t in threading.enumerate() if isinstance(t, svr_threads.Worker) and t.is_alive()]


def obs1_close_right_after_handoff():
    print("== 1. job handed to an idle worker, pool closed before the worker woke up")
    config.THREADPOOL_SIZE_MIN = config.THREADPOOL_SIZE = 1
    dropped = 0
    for _ in range(20):
        pool = svr_threads.Pool()
        job = Job()
        pool.process(job)       # accepted: no exception
        pool.close()            # overwrites the worker's job slot with None before the worker looked at it
        time.sleep(0.05)
        if job.runs == 0:
            dropped += 1
    print("   accepted jobs that were neither run nor refused: %d of 20" % dropped)


def obs2_baseexception_in_job():
    print("== 2. a job that ends with SystemExit (e.g. an exposed method calling sys.exit())")
    config.THREADPOOL_SIZE_MIN = config.THREADPOOL_SIZE = 1
    pool = svr_threads.Pool()
    hook, threading.excepthook = threading.excepthook, lambda args: None
    try:
        pool.process(Job(lambda: sys.exit(3)))
        time.sleep(0.3)
        print("   pool: idle=%d busy=%d, live worker threads=%d" % (len(pool.idle), len(pool.busy), len(live_workers())))
        try:
            pool.process(Job())
            print("   next job accepted")
        except svr_threads.NoFreeWorkersError as x:
            print("   next job refused although nothing is running:", x)
    finally:
        threading.excepthook = hook
        pool.close()


def obs3_silent_refused_client_default_config():
    print("== 3. default config (COMMTIMEOUT=0): a silent client that has to be refused blocks the accept loop")
    config.reset()
    config.SERVERTYPE = "thread"
    config.THREADPOOL_SIZE_MIN = config.THREADPOOL_SIZE = 1
    config.POLLTIMEOUT = 0.5
    release = threading.Event()
    entered = threading.Event()

    @Pyro5.server.expose
    class Holder(object):
        def hold(self):
            entered.set()
            release.wait(30)

    daemon = Pyro5.server.Daemon(host="127.0.0.1", port=0)
    uri = daemon.register(Holder, "holder")
    threading.Thread(target=daemon.requestLoop, daemon=True).start()

    def occupy():
        with Pyro5.client.Proxy(uri) as p:
            p.hold()
    threading.Thread(target=occupy, daemon=True).start()
    entered.wait(5)
    silent = socket.create_connection(daemon.transportServer.sock.getsockname()[:2])
    time.sleep(0.3)
    p = Pyro5.client.Proxy(uri)
    p._pyroTimeout = 3
    t0 = time.time()
    try:
        p._pyroBind()
        print("   connected?!")
    except Exception as x:
        print("   well-behaved client behind the silent one: %.1fs -> %s: %s" % (time.time() - t0, type(x).__name__, x))
    silent.close()
    release.set()
    time.sleep(0.2)
    daemon.shutdown()
    daemon.close()


if __name__ == "__main__":
    obs1_close_right_after_handoff()
    obs2_baseexception_in_job()
    obs3_silent_refused_client_default_config()
