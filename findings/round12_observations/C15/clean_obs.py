"""
Clean-tree observation (NOT a seed): the AutoCleaner's "probe the listed uri, then remove the NAME" is a check-then-act
that is not atomic with respect to clients.  If a client re-registers the name with a new, reachable uri between the
cleaner's list() snapshot and its remove(name), the fresh registration is deleted.

The interleaving is forced with the script's own NameServer subclass: its list() - which only the cleaner thread calls
here - lets "the client" re-register the name right after the snapshot was taken.  max_unreachable_time is set to 0 so
that the first failed probe already removes (in real life the same happens for a name that was unreachable for 20 s and
is re-registered by its restarted server just before the cleaner's final probe round finishes).

Prints what it sees; exits 1 when the fresh registration was removed (which is what the unchanged tree does).
"""
import os
import sys
import socket
import time

sys.path.insert(0, os.path.join(os.path.dirname(os.path.abspath(__file__)), ".."))

from Pyro5 import config   # noqa: E402
import Pyro5.nameserver as nameserver   # noqa: E402


class RacingNameServer(nameserver.NameServer):
    client_action = None

    def list(self, *args, **kwargs):
        snapshot = super(RacingNameServer, self).list(*args, **kwargs)
        action, self.client_action = self.client_action, None
        if action:
            action()        # a client operation that is served right after the cleaner's list() returned
        return snapshot


def main():
    # a dead uri: a port that nobody listens on
    s = socket.socket()
    s.bind(("127.0.0.1", 0))
    dead_port = s.getsockname()[1]
    s.close()
    # a live uri: a listening socket
    live = socket.socket()
    live.bind(("127.0.0.1", 0))
    live.listen(5)
    live_uri = "PYRO:obj@127.0.0.1:%d" % live.getsockname()[1]

    config.NS_AUTOCLEAN = 0.1
    config.COMMTIMEOUT = 0.5
    nameserver.AutoCleaner.override_autoclean_min = True
    nameserver.AutoCleaner.max_unreachable_time = 0.0
    nameserver.AutoCleaner.loop_delay = 0.2

    ns = RacingNameServer()
    ns.register("svc", "PYRO:obj@127.0.0.1:%d" % dead_port)
    ns.client_action = lambda: ns.register("svc", live_uri)      # the restarted server re-registers itself
    cleaner = nameserver.AutoCleaner(ns)
    cleaner.start()
    time.sleep(1.5)
    cleaner.stop = True
    cleaner.join()
    live.close()
    final = ns.list()
    print("final listing:", final)
    if "svc" not in final:
        print("OBSERVED: the re-registered name (now pointing to a reachable uri %s) was removed by the autocleaner" % live_uri)
        return 1
    print("the fresh registration survived")
    return 0


if __name__ == "__main__":
    sys.exit(main())
