"""
Clean-tree observation for C03 (see CLEAN_TREE_OBSERVATIONS.md). No fault is injected.
Exit code 0 = nothing odd observed, 1 = a call failed with a communication error on a healthy transport.
"""
import os
import sys
import threading

sys.path.insert(0, os.path.abspath(os.path.join(os.path.dirname(os.path.abspath(__file__)), "..")))

import Pyro5.api            # noqa: E402
import Pyro5.errors         # noqa: E402
from Pyro5 import config    # noqa: E402


class Thing(object):
    @Pyro5.api.expose
    def echo(self, token):
        return token

    @Pyro5.api.expose
    @Pyro5.api.callback
    def cb_fail(self):
        raise ValueError("the callback's own exception")



def run(servertype):
    odd = []
    config.SERVERTYPE = servertype
    config.MAX_RETRIES = 0
    daemon = Pyro5.api.Daemon(host="127.0.0.1", port=0)
    uri = daemon.register(Thing(), "thing")
    threading.Thread(target=daemon.requestLoop, daemon=True).start()
    with Pyro5.api.Proxy(uri) as p:
        p._pyroTimeout = 3
        print("[%s] echo: %r" % (servertype, p.echo("t1")))
        try:
            p.cb_fail()
        except ValueError as x:
            print("[%s] cb_fail raised its own exception: %r" % (servertype, x))
        for n in (2, 3):
            try:
                print("[%s] echo: %r" % (servertype, p.echo("t%d" % n)))
            except Pyro5.errors.CommunicationError as x:
                print("[%s] echo('t%d') after the failed @callback call: %s: %s" % (servertype, n, type(x).__name__, x))
                odd.append("call after a @callback method that raised: %s" % type(x).__name__)
    daemon.shutdown()
    return odd


if __name__ == "__main__":
    odd = run("thread") + run("multiplex")
    if odd:
        print("OBSERVED:", odd)
        sys.exit(1)
    print("nothing odd")
