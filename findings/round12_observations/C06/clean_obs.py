"""
Observations on the UNCHANGED tree for property C06 (not used as seeds). Prints what it sees; exits 0 always.
Run:  /venv/bin/python _seed/clean_obs.py        and        /venv/bin/python -O _seed/clean_obs.py
"""
import os
import sys

sys.path.insert(0, os.path.abspath(os.path.join(os.path.dirname(os.path.abspath(__file__)), "..")))

from Pyro5 import protocol, config     # noqa: E402

HS = protocol._header_size
config.COMPRESSION = False


def decode(wire):
    return protocol.ReceivingMessage(wire[:HS], wire[HS:])


def show(title, fn):
    try:
        print("%-70s -> %s" % (title, fn()))
    except Exception as x:
        print("%-70s -> raises %s: %s" % (title, type(x).__name__, x))


# 1. the decoder accepts two chunks with the same annotation id; what it accepted re-encodes to a different (shorter) message
wire = bytearray(protocol.SendingMessage(protocol.MSG_RESULT, 0, 1, 2, b"data", {"AAAA": b"one", "BBBB": b"two"}).data)
wire[HS + 11:HS + 15] = b"AAAA"     # second chunk id BBBB -> AAAA
wire = bytes(wire)


def dup():
    m = decode(wire)
    again = protocol.SendingMessage(m.type, m.flags, m.seq, m.serializer_id, bytes(m.data), {k: bytes(v) for k, v in m.annotations.items()})
    return "ACCEPTED annotations=%r annotations_size=%d; re-encoded equals received: %s (%d vs %d bytes)" % (
        {k: bytes(v) for k, v in m.annotations.items()}, m.annotations_size, bytes(again.data) == wire, len(again.data), len(wire))


show("1. duplicate annotation id in two chunks", dup)


# 2. the exact-tiling check of the annotation walk is an `assert`: under `python -O` an overshooting chunk is accepted
wire2 = bytearray(protocol.SendingMessage(protocol.MSG_RESULT, 0, 1, 2, b"data", {"AAAA": b"one"}).data)
wire2[HS + 4:HS + 8] = (3 + 2).to_bytes(4, "big")     # chunk claims 2 bytes of the payload as well
wire2 = bytes(wire2)


def overshoot():
    m = decode(wire2)
    return "ACCEPTED annotations=%r data=%r (python -O: %s)" % ({k: bytes(v) for k, v in m.annotations.items()}, bytes(m.data), not __debug__)


show("2. last chunk overshoots the annotations region (optimised=%s)" % (not __debug__), overshoot)


# 3. a multi-dimensional memoryview annotation value: itemsize 1, so it is not recast, but len() counts rows, not bytes
def multidim():
    v = memoryview(b"abcdef").cast("B", shape=[2, 3])
    m = protocol.SendingMessage(protocol.MSG_RESULT, 0, 1, 2, b"data", {"AAAA": v})
    declared = int.from_bytes(m.data[16:20], "big")
    actual = len(m.data) - HS - 4
    out = "sender built it: declared annotations length %d, actual %d bytes (len(v)=%d, v.nbytes=%d); " % (declared, actual, len(v), v.nbytes)
    try:
        r = decode(bytes(m.data))
        out += "receiver ACCEPTED annotations=%r data=%r" % ({k: bytes(x) for k, x in r.annotations.items()}, bytes(r.data))
    except Exception as x:
        out += "receiver raises %s: %s" % (type(x).__name__, x)
    return out


show("3. annotation value = memoryview cast to shape [2,3]", multidim)


# 4. a memoryview PAYLOAD over multi-byte items (only annotation values are recast to bytes)
def widepayload():
    import array
    p = memoryview(array.array("I", [1, 2, 3]))
    m = protocol.SendingMessage(protocol.MSG_RESULT, 0, 1, 2, p)
    declared = int.from_bytes(m.data[12:16], "big")
    return "sender built it: declared data length %d, actual %d bytes" % (declared, len(m.data) - HS)


show("4. payload = memoryview over array('I', 3 items)", widepayload)
