"""
Observations on the UNCHANGED tree (not used as seeds).  Prints what it sees; always exits 0.

 1. pyro_app served from more than one thread (any threaded WSGI server): the name server proxy cached in
    httpgateway._nameserver is owned by the thread of the first request, every request handled by another
    thread fails with a 500 'the calling thread is not the owner of this proxy' although the call was
    authorised and the object is fine - the call is never forwarded.
 2. a WSGI environ without QUERY_STRING (PEP 3333 allows the server to omit it when empty): pyro_app raises
    KeyError instead of answering.
"""
import io
import os
import sys
import threading
from wsgiref.util import setup_testing_defaults

sys.path.insert(0, os.path.abspath(os.path.join(os.path.dirname(os.path.abspath(__file__)), "..")))

import Pyro5
import Pyro5.api
import Pyro5.nameserver
import Pyro5.utils.httpgateway as gw


@Pyro5.api.expose
class Backend(object):
    def hello(self):
        return "hello"


def http(method, path, query="", drop_query_string=False):
    environ = {}
    setup_testing_defaults(environ)
    environ.update(REQUEST_METHOD=method, PATH_INFO=path, QUERY_STRING=query)
    if drop_query_string:
        del environ["QUERY_STRING"]
    environ["wsgi.errors"] = io.StringIO()
    seen = {}

    def start_response(status, response_headers, exc_info=None):
        seen["status"] = status
    body = b"".join(gw.pyro_app(environ, start_response))
    return seen["status"], body


nsuri, nsdaemon, _ = Pyro5.nameserver.start_ns(host="127.0.0.1", port=0)
daemon = Pyro5.api.Daemon(host="127.0.0.1", port=0)
nsdaemon.nameserver.register("http.backend", daemon.register(Backend(), "backend"))
for d in (nsdaemon, daemon):
    threading.Thread(target=d.requestLoop, daemon=True).start()
Pyro5.config.NS_HOST = "127.0.0.1"
Pyro5.config.NS_PORT = nsuri.port
gw.pyro_app.comm_timeout = 10.0

print("1. request from the main thread :", http("GET", "/pyro/http.backend/hello"))
result = []
t = threading.Thread(target=lambda: result.append(http("GET", "/pyro/http.backend/hello")))
t.start()
t.join()
print("   same request, other thread   :", result[0][0], result[0][1][:160])

try:
    print("2. environ without QUERY_STRING :", http("GET", "/pyro/http.backend/hello", drop_query_string=True))
except Exception as x:
    print("2. environ without QUERY_STRING : pyro_app raised %r" % x)
nsdaemon.shutdown()
daemon.shutdown()
