"""Clean-tree observation for C04: the marshal serializer hands back code objects from a crafted payload.
Runs on the UNCHANGED tree; prints what it sees; exits 0 always (it is an observation, not a seed)."""
import os
import sys
import marshal
import types

sys.path.insert(0, os.path.abspath(os.path.join(os.path.dirname(os.path.abspath(__file__)), "..")))
import Pyro5.serializers    # noqa: E402

ser = Pyro5.serializers.serializers["marshal"]
code = compile("__import__('os').getpid()", "<payload>", "eval")

# result path: any crafted marshal byte string is accepted, recreate_classes passes unknown leaf types through
value = ser.loads(marshal.dumps([1, {"k": code}, Ellipsis, StopIteration]))
print("loads     ->", [type(x).__name__ for x in (value[0], value[1]["k"], value[2], value[3])])
assert isinstance(value[1]["k"], types.CodeType)

# call-argument path
obj, method, vargs, kwargs = ser.loadsCall(marshal.dumps(("obj", "meth", (code,), {"c": code})))
print("loadsCall -> vargs[0]:", type(vargs[0]).__name__, " kwargs['c']:", type(kwargs["c"]).__name__)
assert isinstance(vargs[0], types.CodeType) and isinstance(kwargs["c"], types.CodeType)
print("the decoded value contains live code objects (inert until something calls exec/eval/FunctionType on them),")
print("plus the Ellipsis and StopIteration singletons: none of these is plain data or in the closed class set.")
