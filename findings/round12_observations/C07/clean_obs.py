"""
Observations on the UNCHANGED tree that already look like violations of C07. Prints what it sees; always exits 0.
"""
import os
import sys
import threading

sys.path.insert(0, os.path.join(os.path.dirname(os.path.abspath(__file__)), ".."))

import Pyro5.api      # noqa: E402
import Pyro5.core     # noqa: E402
import Pyro5.errors   # noqa: E402


class InMain(object):       # a class that lives in __main__
    def __init__(self):
        self.v = 1


@Pyro5.api.expose
class Thing(object):
    def boom(self, kind):
        if kind == "pyro-timeout":
            raise Pyro5.errors.TimeoutError("backend proxy timed out")
        if kind == "pyro-connclosed":
            raise Pyro5.errors.ConnectionClosedError("backend proxy lost its connection")
        if kind == "pyro-protocol":
            raise Pyro5.errors.ProtocolError("backend said something odd")
        if kind == "nan":
            raise ValueError(float("nan"), 1)
        if kind == "uri":
            raise ValueError(Pyro5.core.URI("PYRO:x@h:1"))
        if kind == "nested":
            e = ValueError("outer")
            e.cause = KeyError("inner")
            raise e
        if kind == "oserror":
            raise OSError(2, "No such file", "data.txt")

    def store(self, x):
        return 1

    @Pyro5.api.callback
    def cb(self):
        raise ValueError("from callback")

    def ping(self):
        return "pong"


def show(label, call):
    try:
        r = call()
        print("  %-34s -> returned %r" % (label, r))
    except Exception as x:
        attrs = {k: v for k, v in vars(x).items() if k not in ("_pyroTraceback", "partialData")}
        print("  %-34s -> %s.%s args=%r attrs=%r remote-tb=%s" % (
            label, type(x).__module__, type(x).__name__, x.args, attrs, "yes" if getattr(x, "_pyroTraceback", None) else "no"))


daemon = Pyro5.api.Daemon(host="127.0.0.1", port=0)
uri = daemon.register(Thing, "thing")
threading.Thread(target=daemon.requestLoop, daemon=True).start()

print("1. a remote method raises a Pyro5 error that is a CommunicationError: no reply at all, connection dropped")
for kind in ("pyro-timeout", "pyro-connclosed", "pyro-protocol"):
    with Pyro5.api.Proxy(uri) as p:
        show(kind, lambda: p.boom(kind))
        batch = Pyro5.api.BatchProxy(p)
        batch.boom(kind)
        show(kind + " (as batch member: fine)", lambda: list(batch()))

print("2. after a remote SecurityError / an exception in a @callback method the daemon drops the connection,")
print("   the client keeps it: the NEXT call fails with ConnectionClosedError")
with Pyro5.api.Proxy(uri) as p:
    show("argument of a class from __main__", lambda: p.store(InMain()))
    show("next call", p.ping)
    show("call after that", p.ping)
    show("@callback method raising", p.cb)
    show("next call", p.ping)

print("3. class-dicts inside exception args / attributes are not turned back into objects")
for ser in ("serpent", "json", "msgpack"):
    with Pyro5.api.Proxy(uri) as p:
        p._pyroSerializer = ser
        show(ser + ": ValueError(nan, 1)", lambda: p.boom("nan"))
        show(ser + ": ValueError(URI)", lambda: p.boom("uri"))
        show(ser + ": attribute = KeyError('inner')", lambda: p.boom("nested"))

print("4. OSError(2, 'No such file', 'data.txt'): the filename does not travel (not in args, not in vars())")
with Pyro5.api.Proxy(uri) as p:
    try:
        p.boom("oserror")
    except OSError as x:
        print("  ", type(x).__name__, x.args, "filename =", x.filename)
daemon.shutdown()
