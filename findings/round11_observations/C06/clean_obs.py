"""
Observations on the UNCHANGED tree (not used as seeds). Prints what it sees; exits 0 always.
"""
import os
import sys
import array
import zlib
import subprocess

sys.path.insert(0, os.path.normpath(os.path.join(os.path.dirname(os.path.abspath(__file__)), "..")))

import Pyro5.api    # noqa: E402
from Pyro5 import protocol, config, errors     # noqa: E402

HS = protocol._header_size

# 1. payload that is a memoryview over multi-byte items: the header declares the ITEM count, the bytes appended are all bytes.
#    (annotation values got a cast("B") for exactly this; the payload did not)
payload = memoryview(array.array("I", [1, 2, 3, 4, 5]))
m = protocol.SendingMessage(protocol.MSG_INVOKE, 0, 1, 2, payload)
declared = int.from_bytes(m.data[12:16], "big")
print("1. memoryview('I') payload: header declares %d data bytes, %d bytes follow the header" % (declared, len(m.data) - HS))
try:
    protocol.ReceivingMessage(m.data[:HS], m.data[HS:])
    print("   receiver accepted it")
except errors.ProtocolError as x:
    print("   receiver refuses the sender's own message:", x)

# 2. compressed payload followed by junk inside the declared data length: accepted, the junk silently disappears
good = protocol.SendingMessage(protocol.MSG_INVOKE, 0, 1, 2, b"")
body = zlib.compress(b"hello world " * 20) + b"TRAILING-JUNK-THAT-IS-NOT-PART-OF-THE-ZLIB-STREAM"
import struct   # noqa: E402
hdr = struct.pack(protocol._header_format, b"PYRO", protocol.PROTOCOL_VERSION, protocol.MSG_INVOKE, 2,
                  protocol.FLAGS_COMPRESSED, 1, len(body), 0, b"\0" * 16, 0, protocol._magic_number)
r = protocol.ReceivingMessage(hdr, body)
print("2. compressed data + %d junk bytes: accepted, data=%r..., junk dropped without error" % (49, bytes(r.data[:12])))

# 3. the exact-tiling check of the annotation chunks is an `assert`: AssertionError instead of ProtocolError,
#    and no check at all under `python -O`
code = r"""
import sys, struct
sys.path.insert(0, %r)
from Pyro5 import protocol
body = b"ABCD" + (100).to_bytes(4, "big") + b"xy" + b"payload"     # chunk claims 100 bytes, annotation area is 10
hdr = struct.pack(protocol._header_format, b"PYRO", protocol.PROTOCOL_VERSION, 4, 2, 0, 1, 7, 10, b"\0"*16, 0, protocol._magic_number)
try:
    m = protocol.ReceivingMessage(hdr, body)
    print("   accepted: annotations=%%r data=%%r" %% ({k: bytes(v) for k, v in m.annotations.items()}, bytes(m.data)))
except Exception as x:
    print("   refused with", type(x).__name__)
""" % os.path.normpath(os.path.join(os.path.dirname(os.path.abspath(__file__)), ".."))
print("3. annotation chunk that overruns the annotation area (python):")
print(subprocess.run([sys.executable, "-c", code], capture_output=True, text=True).stdout.rstrip())
print("   same with python -O:")
print(subprocess.run([sys.executable, "-O", "-c", code], capture_output=True, text=True).stdout.rstrip())

# 4. duplicate annotation ids are accepted; the decoded dict keeps only the last one, so re-encoding gives a different (shorter) message
body = b"DUPL" + (1).to_bytes(4, "big") + b"1" + b"DUPL" + (1).to_bytes(4, "big") + b"2"
hdr = struct.pack(protocol._header_format, b"PYRO", protocol.PROTOCOL_VERSION, 4, 2, 0, 1, 0, len(body), b"\0" * 16, 0, protocol._magic_number)
r = protocol.ReceivingMessage(hdr, body)
again = protocol.SendingMessage(r.type, r.flags, r.seq, r.serializer_id, bytes(r.data), dict(r.annotations))
print("4. duplicate annotation id: accepted, annotations=%r, annotations_size %d re-encodes to %d"
      % ({k: bytes(v) for k, v in r.annotations.items()}, r.annotations_size, len(again.data) - HS))
