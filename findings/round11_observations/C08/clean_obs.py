"""
Observations on the UNCHANGED tree around C08 (see CLEAN_TREE_OBSERVATIONS.md).
Prints what it sees; exits 0 always (it is a report, not a check).
"""
import os
import sys
import socket
import threading
import time
import uuid

sys.path.insert(0, os.path.abspath(os.path.join(os.path.dirname(os.path.abspath(__file__)), "..")))

from Pyro5 import config, protocol, serializers, socketutil, errors   # noqa: E402
from Pyro5.callcontext import current_context   # noqa: E402
import Pyro5.server   # noqa: E402
import Pyro5.client   # noqa: E402


@Pyro5.server.expose
class Target(object):
    def touch(self, who):
        return "touched by " + who


class Daemon1(Pyro5.server.Daemon):
    """validator refuses with a Pyro ConnectionClosedError"""
    def validateHandshake(self, conn, data):
        raise errors.ConnectionClosedError("go away, " + str(data))


class Daemon2(Pyro5.server.Daemon):
    """validator refuses with a BaseException that is not an Exception"""
    def validateHandshake(self, conn, data):
        sys.exit("refused: " + str(data))


def start(cls, servertype):
    config.SERVERTYPE = servertype
    d = cls(host="127.0.0.1", port=0)
    d.register(Target(), "target")
    t = threading.Thread(target=d.requestLoop, daemon=True)
    t.start()
    time.sleep(0.2)
    return d, t


def connect_msg(handshake, objectid):
    ser = serializers.serializers["serpent"]
    data = ser.dumps({"handshake": handshake, "object": objectid})
    return protocol.SendingMessage(protocol.MSG_CONNECT, 0, 1, ser.serializer_id, data).data


def read_reply(sock):
    conn = socketutil.SocketConnection(sock, keep_open=True)
    try:
        msg = protocol.recv_stub(conn)
    except errors.CommunicationError as x:
        return None, "no reply: %s" % x, None
    ser = serializers.serializers_by_id[msg.serializer_id]
    return msg.type, ser.loads(msg.data), msg


def peer(d):
    host, port = d.locationStr.split(":")
    return socket.create_connection((host, int(port)), timeout=2)


def obs1():
    print("1. validator raises errors.ConnectionClosedError (thread server)")
    d, t = start(Daemon1, "thread")
    s = peer(d)
    current_context.correlation_id = None
    s.sendall(connect_msg("hello", "target"))
    mtype, payload, _ = read_reply(s)
    print("   first reply: type=%r payload=%r   (a CONNECTFAIL carrying 'go away, hello' was expected)" % (mtype, payload))
    s.close()
    d.shutdown()
    t.join(5)


def obs2():
    print("2. validator raises SystemExit (thread server)")
    d, t = start(Daemon2, "thread")
    s = peer(d)
    s.sendall(connect_msg("hello", "target"))
    mtype, payload, _ = read_reply(s)
    print("   first reply within 2s: type=%r payload=%r" % (mtype, payload))
    try:
        closed = s.recv(1) == b""
    except socket.timeout:
        closed = False
    except OSError:
        closed = True
    print("   connection closed by the daemon within another 2s:", closed, "  (no reply, not closed: the peer hangs; the worker thread is gone but stays in pool.busy)")
    print("   pool:", d.transportServer.pool)
    s.close()
    d.shutdown()
    t.join(5)


def obs3():
    print("3. CONNECTFAIL for a non-CONNECT first message carries the correlation id of the PREVIOUS client (multiplex server: one thread)")
    d, t = start(Pyro5.server.Daemon, "multiplex")
    secret_corr = uuid.uuid4()
    current_context.correlation_id = secret_corr
    with Pyro5.client.Proxy("PYRO:target@" + d.locationStr) as p:
        p.touch("first client")
    current_context.correlation_id = None
    s = peer(d)
    s.sendall(protocol.SendingMessage(protocol.MSG_PING, 0, 7, 42, b"ping").data)
    mtype, payload, msg = read_reply(s)
    print("   first client's correlation id:", secret_corr)
    if msg is not None:
        print("   reply to the second, unrelated peer: type=%r payload=%r corr_id=%s flags=0x%x" % (mtype, payload, uuid.UUID(bytes=bytes(msg.corr_id)), msg.flags))
        print("   leaked:", uuid.UUID(bytes=bytes(msg.corr_id)) == secret_corr)
    s.close()
    d.shutdown()
    t.join(5)


if __name__ == "__main__":
    obs1()
    obs2()
    obs3()
