"""
Observations on the UNCHANGED tree for property C07 (remote exceptions arrive as the same exception).
Every probe prints what the caller saw; the script exits 1 if at least one probe deviates from the property.
"""
import os
import sys
import threading

sys.path.insert(0, os.path.abspath(os.path.join(os.path.dirname(os.path.abspath(__file__)), "..")))

import Pyro5.server
import Pyro5.client
import Pyro5.errors
import Pyro5.serializers


@Pyro5.server.expose
class Thrower(object):
    def pyro_timeout(self):
        raise Pyro5.errors.TimeoutError("nested call timed out", 3)

    def pyro_protocol(self):
        raise Pyro5.errors.ProtocolError("nested protocol problem")

    def pyro_security(self):
        raise Pyro5.errors.SecurityError("not allowed")

    def system_exit(self):
        raise SystemExit(3)

    def generator_exit(self):
        raise GeneratorExit("gen")

    def oserror_filename(self):
        raise OSError(2, "No such file or directory", "/data/input.csv")

    def importerror_name(self):
        raise ImportError("cannot import", name="fancy", path="/x/fancy.py")

    def surrogate(self):
        raise ValueError("bad name \udc80 in listing")

    def unicode_decode(self):
        return b"\xff".decode("utf-8")

    def group(self):
        raise ExceptionGroup("several", [ValueError(1), KeyError("k")])

    def unserializable(self):
        err = RuntimeError("cannot open lock")
        err.lock = threading.Lock()
        raise err

    def ping(self):
        return "pong"


deviations = []


def describe(x):
    return "%s.%s%r" % (type(x).__module__, type(x).__name__, x.args)


def probe(p, title, call, expect_type, expect_args=None, extra=None, fallback_ok=False):
    try:
        value = call()
        seen = "returned %r" % (value,)
        ok = False
    except BaseException as x:     # noqa
        seen = describe(x)
        ok = type(x) is expect_type and (expect_args is None or tuple(x.args) == tuple(expect_args))
        if ok and extra:
            ok = extra(x)
        if not ok and fallback_ok:
            # content outside the serializer's value domain: the generic PyroError describing the original is fine too
            ok = type(x) is Pyro5.errors.PyroError and "Original exception" in str(x) and expect_type.__name__ in str(x)
    try:
        nxt = p.ping()
    except Exception as x2:
        nxt = "next call failed: " + describe(x2)
        ok = False
    print("%-8s %-46s -> %s ; next call: %s" % ("ok" if ok else "DEVIATES", title, seen[:150], nxt))
    if not ok:
        deviations.append(title)


def main():
    daemon = Pyro5.server.Daemon(host="127.0.0.1", port=0)
    uri = daemon.register(Thrower(), "thrower")
    t = threading.Thread(target=daemon.requestLoop, daemon=True)
    t.start()
    try:
        for sername in ("serpent", "json"):
            print("--- serializer", sername)
            with Pyro5.client.Proxy(uri) as p:
                p._pyroSerializer = sername
                p._pyroTimeout = 10
                p._pyroBind()
                tag = "[%s] " % sername
                probe(p, tag + "Pyro5.errors.TimeoutError from method", p.pyro_timeout,
                      Pyro5.errors.TimeoutError, ("nested call timed out", 3))
                probe(p, tag + "Pyro5.errors.ProtocolError from method", p.pyro_protocol,
                      Pyro5.errors.ProtocolError, ("nested protocol problem",))
                probe(p, tag + "Pyro5.errors.SecurityError, then next call", p.pyro_security,
                      Pyro5.errors.SecurityError, ("not allowed",))
                probe(p, tag + "SystemExit from method", p.system_exit, SystemExit, (3,))
                probe(p, tag + "GeneratorExit from method", p.generator_exit, GeneratorExit, ("gen",))
                probe(p, tag + "OSError(2, msg, filename): filename", p.oserror_filename, FileNotFoundError, None,
                      lambda x: x.filename == "/data/input.csv")
                probe(p, tag + "ImportError(name=, path=)", p.importerror_name, ImportError, ("cannot import",),
                      lambda x: x.name == "fancy" and x.path == "/x/fancy.py")
                probe(p, tag + "ValueError with a lone surrogate in args", p.surrogate, ValueError, None,
                      lambda x: True, fallback_ok=True)
                probe(p, tag + "UnicodeDecodeError", p.unicode_decode, UnicodeDecodeError, None, fallback_ok=True)
                probe(p, tag + "ExceptionGroup", p.group, ExceptionGroup, None, fallback_ok=True)
                # batch member whose exception cannot be serialised: should be a Pyro error describing the original

                def batch_unserializable():
                    batch = Pyro5.client.BatchProxy(p)
                    batch.ping()
                    batch.unserializable()
                    return list(batch())
                probe(p, tag + "batch member with unserialisable exception", batch_unserializable,
                      Pyro5.errors.PyroError, None, lambda x: "RuntimeError" in str(x) and "cannot open lock" in str(x))
    finally:
        daemon.shutdown()
        t.join(5)
        daemon.close()
    print()
    print("%d probes deviate from C07 on the unchanged tree" % len(deviations))
    sys.exit(1 if deviations else 0)


if __name__ == "__main__":
    main()
