"""
Observations on the UNCHANGED tree that touch property C01 (not used as seeds).  Prints what it sees; always exits 0.
"""
import os
import sys

sys.path.insert(0, os.path.abspath(os.path.join(os.path.dirname(os.path.abspath(__file__)), "..")))

import Pyro5.client  # noqa: E402
import Pyro5.protocol as protocol  # noqa: E402
import Pyro5.serializers as serializers  # noqa: E402


def attempt(label, func):
    try:
        print("   %-58s -> %s" % (label, func()))
    except Exception as x:
        print("   %-58s -> %s: %s" % (label, type(x).__name__, str(x)[:90]))


print("1. SerializedBlob.deserialized() of a pass-through blob, per serializer (arguments were ([1, 2, 3],)):")
for name, ser in serializers.serializers.items():
    data = ser.dumpsCall("obj", "meth", ([1, 2, 3],), {})
    msg = protocol.SendingMessage(protocol.MSG_INVOKE, 0, 1, ser.serializer_id, data)
    blob = Pyro5.client.SerializedBlob("info", msg, is_blob=True)
    attempt(name, lambda: repr(blob.deserialized()))

print("2. dict with int keys / float key under msgpack: packs, but cannot be unpacked (strict_map_key):")
ser = serializers.serializers.get("msgpack")
if ser:
    attempt("msgpack dumps({1: 2})", lambda: repr(ser.dumps({1: 2})))
    attempt("msgpack loads(dumps({1: 2}))", lambda: repr(ser.loads(ser.dumps({1: 2}))))
    attempt("msgpack loadsCall(dumpsCall(.., ({1: 2},), {}))", lambda: repr(ser.loadsCall(ser.dumpsCall("o", "m", ({1: 2},), {}))))

print("3. frozenset: a set becomes a list under json/msgpack, a frozenset is refused:")
for name in ("json", "msgpack"):
    ser = serializers.serializers.get(name)
    if ser:
        attempt(name + " set", lambda: repr(ser.loads(ser.dumps({1, 2}))))
        attempt(name + " frozenset", lambda: repr(ser.loads(ser.dumps(frozenset([1, 2])))))

print("4. serpent: nan is written as a class dict, so nan inside a set (or as dict key) cannot be read back:")
ser = serializers.serializers["serpent"]
attempt("serpent [nan]", lambda: repr(ser.loads(ser.dumps([float("nan")]))))
attempt("serpent {nan}", lambda: repr(ser.loads(ser.dumps({float("nan")}))))
attempt("serpent {nan: 1}", lambda: repr(ser.loads(ser.dumps({float("nan"): 1}))))

print("5. integers beyond python's int<->str conversion limit (4300 digits), python >= 3.11:")
big = 10 ** 5000
for name, ser in serializers.serializers.items():
    attempt(name + " 10**5000 round trip equal", lambda: ser.loads(ser.dumps(big)) == big)

print("6. type replacement (json/msgpack) that returns a plain builtin such as str is refused:")


class Custom(object):
    pass


for name in ("json", "msgpack"):
    ser = serializers.serializers.get(name)
    if ser:
        type(ser).register_type_replacement(Custom, lambda obj: "replaced")
        attempt(name + " dumps(Custom()) with replacement -> 'replaced'", lambda: repr(ser.loads(ser.dumps(Custom()))))
