"""
Observations on the UNCHANGED tree (not used as seeds): places where property C19 does not hold as stated.
Prints one block per observation; exits 0 always (it is a report, not a test).
"""
import os
import sys

sys.path.insert(0, os.path.normpath(os.path.join(os.path.dirname(os.path.abspath(__file__)), "..")))

import itertools
import socket
import threading
from Pyro5 import core, client, config, serializers, nameserver, errors
from Pyro5.compatibility import Pyro4


def block(title):
    print("\n=== " + title)


block("1. PYROMETA uris cannot be hashed (the state tuple holds a set)")
u = core.URI("PYROMETA:tag1,tag2@ns.example.org")
try:
    print("hash:", hash(u))
except TypeError as x:
    print("hash(URI('PYROMETA:tag1,tag2@ns.example.org')) ->", type(x).__name__, x)
try:
    print("hash(Proxy):", hash(client.Proxy(u)))
except TypeError as x:
    print("hash(Proxy(that uri)) ->", type(x).__name__, x)

block("2. PYROMETA uris come out of json and msgpack with a list for .object, and compare unequal")
for name, ser in sorted(serializers.serializers.items()):
    got = ser.loads(ser.dumps(u))
    print("%-8s object=%r  equal to the original: %s" % (name, got.object, got == u))

block("3. the text form of a PYROMETA uri is not always a fixed point (set iteration order depends on insertion history)")
tags = ["t%d" % i for i in range(40)]
found = None
for a, b in itertools.permutations(tags, 2):
    u1 = core.URI("PYROMETA:%s,%s" % (a, b))
    t1 = str(u1)
    t2 = str(core.URI(t1))
    if t1 != t2:
        found = (a, b, t1, t2, str(core.URI(t2)))
        break
if found:
    print("URI('PYROMETA:%s,%s') prints %r, which parses to a uri that prints %r (and that one prints %r); the uris are equal, the texts are not"
          % found)
else:
    print("no such pair among the candidates in this process (string hashing is randomised per process; run again)")

block("4. URI / Proxy from the Pyro4 compatibility layer cannot pass through any serializer")
for obj in (Pyro4.URI("PYRO:obj@host:1"), Pyro4.Proxy("PYRO:obj@host:1")):
    for name, ser in sorted(serializers.serializers.items()):
        try:
            got = ser.loads(ser.dumps(obj))
            print("%-8s %s -> %r" % (name, type(obj).__name__, got))
        except Exception as x:
            print("%-8s %s.%s -> %s: %s" % (name, type(obj).__module__, type(obj).__name__, type(x).__name__, x))

block("5. a URI carried as an attribute of an exception arrives as a plain dict")


e = LookupError("object moved")
e.new_uri = core.URI("PYRO:obj@host:1")
for name, ser in sorted(serializers.serializers.items()):
    try:
        got = ser.loads(ser.dumps(e))
        print("%-8s %s.new_uri = %r" % (name, type(got).__name__, getattr(got, "new_uri", None)))
    except Exception as x:
        print("%-8s -> %s: %s" % (name, type(x).__name__, x))

block("6. broadcast discovery reads at most 100 bytes: a long name server host name silently changes the port")
# a responder that announces a (legal) uri of 104 characters; the datagram is cut after 100, inside the port number
host = ("n" * 60 + ".example.org")[:72] + ".lan"     # 76 characters
announced = core.URI("PYRO:%s@%s:9090" % (core.NAMESERVER_NAME, host))
print("announced uri (%d chars): %s" % (len(str(announced)), announced))
bc = nameserver.BroadcastServer(announced, bchost="127.0.0.1", bcport=0)
t = bc.runInThread()
saved = (config.NS_HOST, config.NS_BCPORT, list(config.BROADCAST_ADDRS))
try:
    config.NS_HOST, config.NS_BCPORT, config.BROADCAST_ADDRS = "nowhere.invalid", bc.getPort(), ["127.0.0.1"]
    try:
        proxy = core.locate_ns()
        print("locate_ns() found:", proxy._pyroUri, " equal to the announced uri:", proxy._pyroUri == announced)
    except errors.PyroError as x:
        print("locate_ns() ->", type(x).__name__, x)
finally:
    config.NS_HOST, config.NS_BCPORT, config.BROADCAST_ADDRS = saved
    bc.close()
    t.join()

block("7. resolve() ignores the unix socket of a PYRONAME uri (it passes uri.host / uri.port to locate_ns, never uri.sockname)")
import inspect
src = inspect.getsource(core.resolve)
print("calls in resolve():", [line.strip() for line in src.splitlines() if "locate_ns(" in line])
print("URI('PYRONAME:x@./u:/tmp/ns.sock') has host=%r port=%r sockname=%r -> locate_ns(None, None) searches the default places instead"
      % (lambda v: (v.host, v.port, v.sockname))(core.URI("PYRONAME:x@./u:/tmp/ns.sock")))
