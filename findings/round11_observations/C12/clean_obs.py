"""
Observations on the UNCHANGED tree (not used as seeds). Prints what it sees; exits 1 if any of them shows.

 1. nested call: a method on server A calls server B through a proxy. The client-side code shares the
    thread-local context with the server-side code, so
      a) the response annotations set by B's method (for ITS caller, the thread of A) are sent on with A's
         reply to the original client: a reply to a different call / different client carries them;
      b) a response annotation that A's method set BEFORE the nested call is wiped (client.py resets
         current_context.response_annotations at the start of _pyroInvoke) - lost rather than leaked.
 2. failed handshake answer carries the correlation id of the previous request served on that thread
    (multiplex server): _handshake sets current_context.correlation_id only after recv_stub succeeded.
"""
import os
import sys
import uuid
import socket
import threading

sys.path.insert(0, os.path.abspath(os.path.join(os.path.dirname(os.path.abspath(__file__)), "..")))

import Pyro5.api                       # noqa: E402
import Pyro5.server                    # noqa: E402
import Pyro5.protocol                  # noqa: E402
import Pyro5.socketutil                # noqa: E402
from Pyro5 import config               # noqa: E402
from Pyro5.callcontext import current_context  # noqa: E402


@Pyro5.server.expose
class Inner(object):
    def inner(self):
        current_context.response_annotations["INNR"] = b"meant for the caller of inner()"
        return 1


@Pyro5.server.expose
class Outer(object):
    inner_uri = None

    def outer(self):
        current_context.response_annotations["OUTR"] = b"set by outer() before the nested call"
        with Pyro5.api.Proxy(Outer.inner_uri) as p:
            p.inner()
        return 2

    def plain(self):
        return 3


def main():
    seen = []
    config.SERVERTYPE = "multiplex"
    db = Pyro5.server.Daemon(host="127.0.0.1", port=0)
    Outer.inner_uri = db.register(Inner, "inner")
    da = Pyro5.server.Daemon(host="127.0.0.1", port=0)
    uri = da.register(Outer, "outer")
    for d in (da, db):
        threading.Thread(target=d.requestLoop, daemon=True).start()
    try:
        with Pyro5.api.Proxy(uri) as p:
            p.outer()
            anns = {k: bytes(v) for k, v in current_context.response_annotations.items()}
            print("1. annotations on the reply of outer():", anns)
            if "INNR" in anns:
                seen.append("1a: annotation set by inner() (server B) was delivered with the reply of outer() (server A)")
            if "OUTR" not in anns:
                seen.append("1b: annotation set by outer() before its nested call was dropped")

            # 2. a request with a known correlation id, then a bad handshake from another connection
            corr = uuid.uuid4()
            current_context.correlation_id = corr
            p.plain()
            current_context.correlation_id = None
            host, port = da.locationStr.split(":")
            s = socket.create_connection((host, int(port)))
            conn = Pyro5.socketutil.SocketConnection(s)
            bad = Pyro5.protocol.SendingMessage(Pyro5.protocol.MSG_INVOKE, 0, 7, 42, b"x" * 60)   # not a MSG_CONNECT
            conn.send(bad.data)
            answer = Pyro5.protocol.recv_stub(conn)
            conn.close()
            got = uuid.UUID(bytes=answer.corr_id)
            print("2. previous request's correlation id:", corr)
            print("   handshake answer: type=%d flags=0x%x correlation id=%s" % (answer.type, answer.flags, got))
            if got == corr:
                seen.append("2: the CONNECTFAIL answer to a new connection carries the correlation id of another client's request")
    finally:
        da.shutdown()
        db.shutdown()
    if seen:
        print("OBSERVED on the unchanged tree:")
        for s in seen:
            print("   " + s)
        sys.exit(1)
    print("nothing observed")


if __name__ == "__main__":
    main()
