"""
Clean-tree observation (not a seed): the AutoCleaner decides on a stale snapshot and removes BY NAME.

AutoCleaner.run() takes one list() snapshot {name: uri}, then probes the uris one after the other (each probe
may take up to COMMTIMEOUT / 5 seconds) and finally calls nameserver.remove(name).  If a client re-registers
the name with a new, perfectly reachable uri while the sweep is still busy with earlier entries, the cleaner
afterwards probes the OLD uri from its snapshot, finds it dead and removes the name - i.e. the NEW registration,
whose uri it never looked at.  (check-then-act across two separately locked name server calls.)

The script makes the window wide in a legal way: an earlier entry 'a.slow' points to a listening socket whose
accept queue is full, so that the probe of it hangs until the probe timeout.  Class attributes of AutoCleaner
(loop_delay, max_unreachable_time, override_autoclean_min) are set the way tests/test_naming.py does.
Exit code 1 = observation reproduced, 0 = not reproduced.
"""
import os
import sys
import socket
import time

sys.path.insert(0, os.path.abspath(os.path.join(os.path.dirname(os.path.abspath(__file__)), "..")))

import Pyro5.nameserver  # noqa: E402
from Pyro5 import config  # noqa: E402
from Pyro5.nameserver import NameServer, AutoCleaner  # noqa: E402


def main():
    config.COMMTIMEOUT = 3.0        # probe timeout of the cleaner
    config.NS_AUTOCLEAN = 0.2
    AutoCleaner.override_autoclean_min = True
    AutoCleaner.loop_delay = 0.3
    AutoCleaner.max_unreachable_time = 0.0   # remove on the first failed probe (keeps the script short)

    # a listening socket that never accepts and whose accept queue is full: connect() to it hangs
    slow = socket.socket()
    slow.bind(("127.0.0.1", 0))
    slow.listen(0)
    fillers = []
    for _ in range(4):
        s = socket.socket()
        s.setblocking(False)
        try:
            s.connect(slow.getsockname())
        except (BlockingIOError, OSError):
            pass
        fillers.append(s)
    # a healthy server socket (the 'new' location of the service)
    live = socket.socket()
    live.bind(("127.0.0.1", 0))
    live.listen(5)
    # a dead port (the 'old' location of the service)
    dead = socket.socket()
    dead.bind(("127.0.0.1", 0))
    dead_port = dead.getsockname()[1]
    dead.close()

    ns = NameServer()
    ns.register("a.slow", "PYRO:slow@127.0.0.1:%d" % slow.getsockname()[1])
    ns.register("b.svc", "PYRO:svc@127.0.0.1:%d" % dead_port)
    new_uri = "PYRO:svc@127.0.0.1:%d" % live.getsockname()[1]

    cleaner = AutoCleaner(ns)
    cleaner.start()
    time.sleep(1.2)       # the sweep has started and is now stuck probing 'a.slow'
    ns.register("b.svc", new_uri)      # the service came back on a new port and re-registered itself
    print("client re-registered b.svc ->", new_uri, " (this uri is reachable)")
    time.sleep(4.0)       # let the sweep finish
    cleaner.stop = True
    cleaner.join(10)
    listing = ns.list()
    print("registrations after the sweep:", listing)
    for s in fillers + [slow, live]:
        s.close()
    if "b.svc" not in listing:
        print("OBSERVED: autoclean removed the fresh, reachable registration of b.svc (it probed the stale uri of its snapshot)")
        raise SystemExit(1)
    print("not reproduced (b.svc still registered)")


if __name__ == "__main__":
    main()
