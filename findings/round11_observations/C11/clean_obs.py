"""
Clean-tree observations for C11: cases where the UNCHANGED tree lets a batch differ from the same calls made one by one.
Prints what it sees; exits 0 always (these are observations, not seeds).
"""
import os
import sys
import time
import threading

sys.path.insert(0, os.path.abspath(os.path.join(os.path.dirname(os.path.abspath(__file__)), "..")))

import Pyro5.client       # noqa: E402
import Pyro5.server       # noqa: E402
import Pyro5.errors       # noqa: E402


class Thing(object):
    def __init__(self):
        self.items = []
        self.count = 0

    @Pyro5.server.expose
    def push(self, x):
        self.items.append(x)
        return self.items           # returns its own (mutable) state

    @Pyro5.server.expose
    @Pyro5.server.oneway
    def fire(self, x):
        self.count += 1
        if x < 0:
            raise ValueError("negative")
        return "fired %d" % x

    @Pyro5.server.expose
    def stop(self):
        raise StopIteration("done")

    @Pyro5.server.expose
    def gen(self):
        self.count += 1
        return (i for i in range(3))     # an iterator result: fine for a plain call (item stream), not for a batch

    @Pyro5.server.expose
    def inc(self):
        self.count += 1
        return self.count

    @Pyro5.server.expose
    def broken_link(self):
        raise Pyro5.errors.TimeoutError("the backend did not answer")

    @Pyro5.server.expose
    def state(self):
        return [list(self.items), self.count]


@Pyro5.server.expose
@Pyro5.server.behavior(instance_mode="percall")
class PerCall(object):
    def __init__(self):
        self.n = 0

    def inc(self):
        self.n += 1
        return self.n


def outcome(fn):
    try:
        return ("result", fn())
    except Exception as x:
        return ("raised", type(x).__name__, str(x)[:70])


def main():
    daemon = Pyro5.server.Daemon(host="127.0.0.1", port=0)
    threading.Thread(target=daemon.requestLoop, daemon=True).start()

    def pair():
        a, b = Thing(), Thing()
        return Pyro5.client.Proxy(daemon.register(a)), Pyro5.client.Proxy(daemon.register(b))

    # 1. results that alias the object's mutable state are serialized after the whole batch has run
    ps, pb = pair()
    seq = [ps.push(1), ps.push(2), ps.push(3)]
    batch = Pyro5.client.BatchProxy(pb)
    batch.push(1); batch.push(2); batch.push(3)
    print("1. aliased results   sequential:", seq, " batch:", list(batch()))

    # 2. @oneway methods inside a batch run synchronously, return their value, and their exception aborts the batch
    ps, pb = pair()
    seq = [outcome(lambda: ps.fire(1)), outcome(lambda: ps.fire(-1)), outcome(lambda: ps.inc())]
    time.sleep(0.3)
    batch = Pyro5.client.BatchProxy(pb)
    batch.fire(1); batch.fire(-1); batch.inc()
    got = []
    it = batch()
    for _ in range(3):
        o = outcome(lambda: next(it))
        got.append(o)
        if o[0] == "raised":
            break
    print("2. @oneway in batch  sequential:", seq, "state", ps.state(), "\n                     batch     :", got, "state", pb.state())

    # 3. a method raising StopIteration: the batch's result generator turns it into RuntimeError (PEP 479)
    ps, pb = pair()
    batch = Pyro5.client.BatchProxy(pb)
    batch.stop()
    it = batch()
    print("3. StopIteration     sequential:", outcome(lambda: ps.stop()), " batch:", outcome(lambda: next(it)))

    # 4. a result that cannot be put in a batch reply (iterator): the calls AFTER it are executed nevertheless
    ps, pb = pair()
    seq = [outcome(lambda: ps.inc()), outcome(lambda: list(ps.gen())), outcome(lambda: ps.inc())]
    batch = Pyro5.client.BatchProxy(pb)
    batch.inc(); batch.gen(); batch.inc(); batch.inc()
    print("4. iterator result   sequential:", seq, "state", ps.state(),
          "\n                     batch     :", outcome(lambda: list(batch())), "state", pb.state())

    # 5. a method raising a CommunicationError subclass: plain call -> no reply, connection dropped; batch -> the error itself
    ps, pb = pair()
    batch = Pyro5.client.BatchProxy(pb)
    batch.broken_link()
    it = batch()
    print("5. CommunicationErr  sequential:", outcome(lambda: ps.broken_link()), " batch:", outcome(lambda: next(it)))

    # 6. instance_mode percall: one instance serves the whole batch, a fresh one serves every plain call
    uri = daemon.register(PerCall)
    with Pyro5.client.Proxy(uri) as p:
        seq = [p.inc(), p.inc(), p.inc()]
        batch = Pyro5.client.BatchProxy(p)
        batch.inc(); batch.inc(); batch.inc()
        print("6. percall instance  sequential:", seq, " batch:", list(batch()))

    daemon.shutdown()


if __name__ == "__main__":
    main()
