"""
Observation on the UNCHANGED tree (see CLEAN_TREE_OBSERVATIONS.md, item 1).

A stream that a client resumes over a NEW connection before the server has noticed that the OLD connection is dead
stays owned by the old connection (get_next_stream_item only re-associates when the owner is None).  When the server
finally notices the old connection's end, _clientDisconnect treats the stream as orphaned although it is in active use
over a live connection:
  * ITER_STREAM_LINGER == 0: the stream is deleted at once -> the connected client gets 'item stream terminated'
  * ITER_STREAM_LINGER  > 0: the stream is marked lingering; if the (connected!) client's next fetch comes later than
    the linger period, housekeeping has dropped it.
Prints what it sees; exits 0 always (it is an observation, not a check).
"""
import os
import sys
import time
import threading

sys.path.insert(0, os.path.abspath(os.path.join(os.path.dirname(os.path.abspath(__file__)), "..")))

import Pyro5.api
import Pyro5.errors
import Pyro5.server
from Pyro5 import config


@Pyro5.api.expose
class Source(object):
    def numbers(self, start, count):
        for i in range(start, start + count):
            yield i

    def slow(self, delay):
        time.sleep(delay)
        return "done"


def run(linger):
    config.ITER_STREAM_LINGER = linger
    config.POLLTIMEOUT = 0.2       # housekeeper period of the thread server
    daemon = Pyro5.server.Daemon(host="127.0.0.1", port=0)
    uri = daemon.register(Source(), "src")
    t = threading.Thread(target=daemon.requestLoop, daemon=True)
    t.start()
    try:
        p = Pyro5.api.Proxy(uri)
        p._pyroTimeout = 0.3
        gen = p.numbers(0, 6)
        print("linger=%s: item %r over connection A" % (linger, next(gen)))
        try:
            p.slow(1.0)                       # the worker of connection A stays busy for a second
        except Pyro5.errors.TimeoutError:
            print("linger=%s: call timed out at the client, connection A dropped by the client" % linger)
        p._pyroReconnect(tries=1)             # connection B
        print("linger=%s: item %r over connection B (server has not noticed A's end yet)" % (linger, next(gen)))
        time.sleep(1.0 + 3 * linger + 0.6)    # worker A finishes slow(), notices the disconnect; B stays connected, idle
        try:
            print("linger=%s: item %r over connection B" % (linger, next(gen)))
        except Pyro5.errors.PyroError as x:
            print("linger=%s: connection B was never closed, yet: %s: %s" % (linger, type(x).__name__, x))
        p._pyroRelease()
    finally:
        daemon.shutdown()
        t.join(2)


if __name__ == "__main__":
    run(0)
    run(0.3)
