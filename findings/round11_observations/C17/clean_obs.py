"""
Clean-tree observation for C17 (not used as a seed): send_data with a memoryview whose items are wider than one byte,
on a socket that has a timeout (the manual send loop).  sock.send() reports BYTES sent, the loop then drops that many
ITEMS (`data = data[sent:]`), so after a partial write part of the buffer is never transmitted although send_data returns normally.
The blocking path (sendall) transmits the same buffer completely.
Exit 0 always; prints what it saw.
"""
import os
import sys
import array

sys.path.insert(0, os.path.abspath(os.path.join(os.path.dirname(os.path.abspath(__file__)), "..")))

from Pyro5 import socketutil   # noqa: E402


class Peer:
    def __init__(self, timeout, per_call):
        self.timeout = timeout
        self.per_call = per_call
        self.accepted = bytearray()

    def gettimeout(self):
        return self.timeout

    def send(self, data):
        raw = bytes(data)[:self.per_call]
        self.accepted += raw
        return len(raw)

    def sendall(self, data):
        self.accepted += bytes(data)


buf = memoryview(array.array("I", range(64)))      # 64 items, 256 bytes
for timeout in (None, 2.0):
    peer = Peer(timeout, per_call=16)
    socketutil.send_data(peer, buf)
    print("timeout=%s: buffer has %d bytes, peer accepted %d bytes, identical=%s"
          % (timeout, buf.nbytes, len(peer.accepted), bytes(peer.accepted) == buf.tobytes()))
