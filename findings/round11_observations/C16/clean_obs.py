"""
Observations on the UNCHANGED tree (not used as seeds). Each block prints OBSERVED / not observed.
Run:  /venv/bin/python _seed/clean_obs.py
"""
import os
import sys
import threading

sys.path.insert(0, os.path.abspath(os.path.join(os.path.dirname(os.path.abspath(__file__)), "..")))

import Pyro5.server        # noqa: E402
import Pyro5.client        # noqa: E402
import Pyro5.errors        # noqa: E402
from Pyro5 import config   # noqa: E402
from Pyro5.serializers import SerializerBase   # noqa: E402


@Pyro5.server.expose
class Thing(object):
    def __init__(self, name):
        self.name = name

    def who(self):
        return self.name


class SubThing(Thing):
    pass


@Pyro5.server.expose
class Factory(object):
    def __init__(self):
        self.ret = None

    def get(self):
        return self.ret


def show(title, observed, detail=""):
    print("%-12s %s %s" % ("OBSERVED" if observed else "not observed", title, detail))


def obs1_stale_id_names_successor():
    """o1's _pyroId stays behind after a forced replacement (or unregister by id); the object->id operations then act on o2"""
    with Pyro5.server.Daemon(port=0) as d:
        o1, o2 = Thing("o1"), Thing("o2")
        d.register(o1, "x")
        d.register(o2, "x", force=True)          # o1 is retired; o1._pyroId is still "x"
        try:
            uri = d.uriFor(o1)
            show("1a uriFor(retired o1) returns a uri (that names o2's registration)", True, str(uri))
        except Pyro5.errors.DaemonError:
            show("1a uriFor(retired o1) returns a uri", False)
        try:
            d.proxyFor(o1)
            show("1b proxyFor(retired o1) returns a proxy (that reaches o2)", True)
        except Pyro5.errors.DaemonError:
            show("1b proxyFor(retired o1) returns a proxy", False)
        d.unregister(o1)                          # o1 is not registered - but this removes o2's registration
        show("1c unregister(retired o1) removed the registration of o2", "x" not in d.objectsById)
        show("1d ... and o2 keeps _pyroId/_pyroDaemon although its id is gone", hasattr(o2, "_pyroId"))


def obs2_unregister_instance_of_registered_class():
    with Pyro5.server.Daemon(port=0) as d:
        d.register(Thing, "cls")
        inst = Thing("never registered")
        try:
            d.unregister(inst)
            raised = None
        except Exception as x:   # noqa
            raised = x
        show("2  unregister(<unregistered instance of a registered class>) removed the CLASS registration",
             "cls" not in d.objectsById, "and raised %r" % (raised,))
        if hasattr(Thing, "_pyroId"):
            del Thing._pyroId
        if hasattr(Thing, "_pyroDaemon"):
            del Thing._pyroDaemon


def obs3_second_registration_without_force():
    with Pyro5.server.Daemon(port=0) as d:
        o = Thing("o")
        d.register(o, "a")
        d.register(o, "b", force=True)
        d.unregister("b")                        # by id: o._pyroId stays "b", "a" still maps to o
        try:
            d.register(o, "c")                   # not forced, o is still registered under "a"
            show("3  an object still registered under 'a' is registered again WITHOUT force",
                 d.objectsById.get("a") is o and d.objectsById.get("c") is o)
        except Pyro5.errors.DaemonError:
            show("3  second registration without force accepted", False)


def obs4_serpent_hook_shares_the_slot_of_class_to_dict():
    """serpent keeps ONE special serializer per class: Daemon.register and register_class_to_dict overwrite each other,
    and Daemon.unregister never restores anything"""
    SerializerBase.register_class_to_dict(Thing, lambda o: {"__class__": "ThingValue", "name": o.name})
    SerializerBase.register_dict_to_class("ThingValue", lambda cn, dd: ("converted-by-user-converter", dd["name"]))
    SerializerBase.register_dict_to_class("%s.Thing" % Thing.__module__, lambda cn, dd: ("default-class-dict", sorted(dd)))
    d = Pyro5.server.Daemon(port=0)
    t = threading.Thread(target=d.requestLoop, daemon=True)
    t.start()
    try:
        f = Factory()
        furi = d.register(f, "factory")
        for ser in ("serpent", "json"):
            config.SERIALIZER = ser
            with Pyro5.client.Proxy(furi) as p:
                ordinary = Thing("ordinary-" + ser)
                f.ret = ordinary
                before = p.get()
                reg = Thing("registered-" + ser)
                d.register(reg, "thing-" + ser)
                d.unregister(reg)
                f.ret = reg
                after_unreg = p.get()
                f.ret = ordinary
                ordinary_after = p.get()
                show("4a [%s] after register+unregister the object does NOT travel like an ordinary object of its class" % ser,
                     after_unreg[0] != before[0], "before=%r after=%r" % (before, after_unreg))
                show("4b [%s] ... and neither does any other (never registered) object of that class any more" % ser,
                     ordinary_after[0] != before[0], "now=%r" % (ordinary_after,))
        # the other direction: a converter registered after Daemon.register kills auto-proxying - for serpent only
        for ser in ("serpent", "json"):
            config.SERIALIZER = ser
            reg = Thing("proxied-" + ser)
            d.register(reg, "thing2-" + ser)
            SerializerBase.register_class_to_dict(Thing, lambda o: {"__class__": "ThingValue", "name": o.name})
            f.ret = reg
            with Pyro5.client.Proxy(furi) as p:
                got = p.get()
            show("4c [%s] a registered object arrives BY VALUE after register_class_to_dict was called for its class" % ser,
                 not isinstance(got, Pyro5.client.Proxy), repr(got))
            d.unregister(reg)
    finally:
        config.SERIALIZER = "serpent"
        SerializerBase.unregister_class_to_dict(Thing)
        d.shutdown()
        t.join(5)
        d.close()


def obs5_subclass_instance_of_registered_class():
    d = Pyro5.server.Daemon(port=0)
    t = threading.Thread(target=d.requestLoop, daemon=True)
    t.start()
    SerializerBase.register_dict_to_class("%s.SubThing" % SubThing.__module__, lambda cn, dd: ("by-value", dd.get("name")))
    try:
        f = Factory()
        furi = d.register(f, "factory")
        d.register(Thing, "thingclass")
        f.ret = SubThing("sub")
        kinds = {}
        for ser in ("serpent", "json", "msgpack"):
            config.SERIALIZER = ser
            with Pyro5.client.Proxy(furi) as p:
                got = p.get()
            kinds[ser] = "proxy" if isinstance(got, Pyro5.client.Proxy) else "value"
        show("5  an instance of a SUBCLASS of a registered class: proxy or value depends on the serializer",
             len(set(kinds.values())) > 1, repr(kinds))
    finally:
        config.SERIALIZER = "serpent"
        d.shutdown()
        t.join(5)
        d.close()
        for a in ("_pyroId", "_pyroDaemon"):
            if a in vars(Thing):
                delattr(Thing, a)


if __name__ == "__main__":
    obs1_stale_id_names_successor()
    obs2_unregister_instance_of_registered_class()
    obs3_second_registration_without_force()
    obs4_serpent_hook_shares_the_slot_of_class_to_dict()
    obs5_subclass_instance_of_registered_class()
