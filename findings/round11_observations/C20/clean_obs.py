"""
Clean-tree observation for C20: call requests that are neither forwarded nor refused with 403/404/405 -
the gateway raises out of the WSGI callable instead (the WSGI server then answers with its own generic 500 page).
No Pyro traffic happens in either case (get_nameserver is never reached), so this is about the *refusal status* only.

 1. gateway key configured, request carries $key twice (?$key=a&$key=b): parse_qs yields a list, singlyfy_parameters keeps
    lists longer than one, and process_pyro_request calls .encode() on the list -> AttributeError, outside its try block.
 2. environ without QUERY_STRING (PEP 3333: "may be empty or absent"): pyro_app indexes environ["QUERY_STRING"] -> KeyError.
"""
import os, sys, io
sys.path.insert(0, os.path.abspath(os.path.join(os.path.dirname(os.path.abspath(__file__)), "..")))
from Pyro5.utils import httpgateway

lookups = []
httpgateway.get_nameserver   # not replaced: if it were reached it would try to locate a name server and fail differently


def request(path, query, drop_query=False):
    environ = {"REQUEST_METHOD": "GET", "PATH_INFO": path, "QUERY_STRING": query, "wsgi.input": io.BytesIO(b""),
               "wsgi.errors": io.StringIO(), "SERVER_NAME": "localhost", "SERVER_PORT": "80", "wsgi.url_scheme": "http"}
    if drop_query:
        del environ["QUERY_STRING"]
    seen = {}
    try:
        body = b"".join(httpgateway.pyro_app(environ, lambda s, h: seen.update(status=s)))
        return seen.get("status"), body
    except Exception as x:
        return "RAISED %s: %s" % (type(x).__name__, x), None


httpgateway.pyro_app.gateway_key = b"secret"
httpgateway.pyro_app.ns_regex = r"http\."
r1 = request("/pyro/http.obj/method", "$key=a&$key=b")
print("1. doubled $key          ->", r1[0])
r2 = request("/pyro/Pyro.NameServer/list", "", drop_query=True)
print("2. QUERY_STRING absent   ->", r2[0])
observed = [r for r in (r1, r2) if str(r[0]).startswith("RAISED")]
print("%d of 2 requests escaped as an exception instead of a 403/404/405 refusal" % len(observed))
