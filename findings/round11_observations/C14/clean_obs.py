"""
Observations on the UNCHANGED tree (see CLEAN_TREE_OBSERVATIONS.md). Prints what it sees; exits 1 if any
of the three observations reproduces, 0 if none does.
"""
import os
import sys
import shutil
import tempfile
import threading

sys.path.insert(0, os.path.abspath(os.path.join(os.path.dirname(os.path.abspath(__file__)), "..")))

import Pyro5.api as api                 # noqa: E402
import Pyro5.core as core               # noqa: E402
import Pyro5.nameserver as nameserver   # noqa: E402
from Pyro5 import config                # noqa: E402

seen = []
tmpdir = tempfile.mkdtemp(prefix="c14obs")
try:
    # 1. a NUL character in a prefix: memory and sqlite back-end disagree (sqlite's substr() stops at the NUL)
    mem = nameserver.NameServer(nameserver.MemoryStorage())
    sql = nameserver.NameServer(nameserver.SqlStorage(os.path.join(tmpdir, "obs.sqlite")))
    answers = {}
    for label, ns in (("memory", mem), ("sqlite", sql)):
        ns.register("a\x00b", "PYRO:x@h:1")
        ns.register("a", "PYRO:y@h:1")
        answers[label] = (sorted(ns.list(prefix="a\x00")), ns.remove(prefix="a\x00b"), sorted(ns.list()))
        print("1. %-6s list(prefix='a\\0')=%r  remove(prefix='a\\0b')=%r  left=%r" % ((label,) + answers[label]))
    if answers["memory"] != answers["sqlite"]:
        seen.append("1: back-ends disagree on a prefix containing NUL")

    # 2. the name '__class__' makes list() unusable for every remote client (the reply dict looks like a serialized class)
    # 3. core.resolve(uri, delay_time) passes delay_time as return_metadata of the lookup helper
    daemon = nameserver.NameServerDaemon(host="localhost", port=0)
    threading.Thread(target=daemon.requestLoop, daemon=True).start()
    uri = daemon.uriFor(daemon.nameserver)
    try:
        with api.Proxy(uri) as ns:
            ns.register("__class__", "PYRO:z@h:1")
            try:
                print("2. list() over the wire:", ns.list())
            except Exception as x:
                print("2. list() over the wire failed: %s: %s" % (type(x).__name__, x))
                seen.append("2: a registration named '__class__' breaks list() for remote clients")
            ns.remove("__class__")
            ns.register("svc", "PYRO:z@h:1", metadata={"m"})
        config.NS_HOST, config.NS_PORT = "localhost", uri.port
        plain = core.resolve("PYRONAME:svc")
        delayed = core.resolve("PYRONAME:svc", delay_time=1.0)
        print("3. resolve(..)=%r  resolve(.., delay_time=1.0)=%r" % (plain, delayed))
        if not isinstance(delayed, core.URI):
            seen.append("3: resolve(uri, delay_time>0) returns (uri, metadata) instead of a URI")
    finally:
        daemon.shutdown()
finally:
    shutil.rmtree(tmpdir, ignore_errors=True)

for s in seen:
    print("OBSERVED", s)
sys.exit(1 if seen else 0)
