"""
Observations on the UNCHANGED tree for property C02 (see CLEAN_TREE_OBSERVATIONS.md).
Prints what it sees; exits 0 always (it is a report, not a test).
"""
import functools
import os
import sys
import threading
import warnings

sys.path.insert(0, os.path.abspath(os.path.join(os.path.dirname(os.path.abspath(__file__)), "..")))

import Pyro5.api          # noqa: E402
import Pyro5.client       # noqa: E402
import Pyro5.server       # noqa: E402
from Pyro5 import config  # noqa: E402

config.COMMTIMEOUT = 10.0
warnings.simplefilter("ignore")
LOG = []


# 1. a non-data descriptor (functools.cached_property) that is not exposed
class Obs1(object):
    @Pyro5.api.expose
    def ping(self):
        return "pong"

    @functools.cached_property
    def expensive(self):
        LOG.append("Obs1.expensive computed")
        return 42


# 2. the same under class-level expose: advertised as a method, never served
@Pyro5.api.expose
class Obs2(object):
    def ping(self):
        return "pong"

    @functools.cached_property
    def expensive(self):
        LOG.append("Obs2.expensive computed")
        return 42


# 3. plain attributes that hold an instance of an exposed class / an exposed class
@Pyro5.api.expose
class Helper(object):
    def __init__(self, *args):
        LOG.append("Helper.__init__%r" % (args,))

    def __call__(self, *args):
        LOG.append("Helper.__call__%r" % (args,))
        return "called"


class Obs3(object):
    factory = Helper            # plain class attribute

    def __init__(self):
        self.helper = Helper()  # plain instance attribute (nested helper object)

    @Pyro5.api.expose
    def ping(self):
        return "pong"


# 4. instance_creator that returns an instance of a subclass
class Obs4Base(object):
    @Pyro5.api.expose
    def ping(self):
        return "pong"

    @Pyro5.api.expose
    def report(self):
        return "base report"


class Obs4Sub(Obs4Base):
    def report(self):           # overridden, not exposed
        LOG.append("Obs4Sub.report ran")
        return "sub report"

    @Pyro5.api.expose
    def extra(self):
        return "extra"


Obs4Base = Pyro5.api.behavior(instance_mode="session", instance_creator=lambda clazz: Obs4Sub())(Obs4Base)


# 5. a registered class is instantiated before the name is looked at
class Obs5(object):
    def __init__(self):
        LOG.append("Obs5.__init__ ran")

    @Pyro5.api.expose
    def ping(self):
        return "pong"


def raw(uri, name, *args):
    with Pyro5.client.Proxy(uri) as p:
        p._pyroBind()
        try:
            return "served", p._pyroInvoke(name, args, {})
        except Exception as x:      # noqa
            return "refused", type(x).__name__


def meta(uri):
    with Pyro5.client.Proxy(uri) as p:
        p._pyroBind()
        return sorted(p._pyroMethods), sorted(p._pyroAttrs)


def main():
    daemon = Pyro5.server.Daemon(host="127.0.0.1", port=0)
    u1 = daemon.register(Obs1(), "obs1")
    u2 = daemon.register(Obs2(), "obs2")
    u3 = daemon.register(Obs3(), "obs3")
    u4 = daemon.register(Obs4Base, "obs4")
    u5 = daemon.register(Obs5, "obs5")
    threading.Thread(target=daemon.requestLoop, daemon=True).start()
    try:
        LOG.clear()
        print("1. unexposed cached_property: advertised", meta(u1), "; raw INVOKE 'expensive' ->", raw(u1, "expensive"), "; target log:", LOG)
        LOG.clear()
        print("2. class-exposed cached_property: advertised", meta(u2), "; raw INVOKE 'expensive' ->", raw(u2, "expensive"), "; target log:", LOG)
        LOG.clear()
        print("3a. plain instance attribute holding an instance of an exposed class: advertised", meta(u3),
              "; raw INVOKE 'helper' ->", raw(u3, "helper", 1), "; target log:", LOG)
        LOG.clear()
        print("3b. plain class attribute holding an exposed class: raw INVOKE 'factory' ->", raw(u3, "factory", 2), "; target log:", LOG)
        LOG.clear()
        print("4. instance_creator returns a subclass instance: advertised", meta(u4),
              "; raw 'report' ->", raw(u4, "report"), "; raw 'extra' ->", raw(u4, "extra"), "; target log:", LOG)
        LOG.clear()
        print("5. registered class, refused name: raw INVOKE '_nope' ->", raw(u5, "_nope"), "; target log:", LOG)
    finally:
        daemon.shutdown()


if __name__ == "__main__":
    main()
