"""
Clean-tree observations for C03 (nothing in Pyro5/ is changed for these).

1. Proxy(connected_socket=...)  (the svr_existingconn pairing): after ONE timed-out call the proxy can never be used
   again although the socket pair is perfectly healthy (it tries to connect to '<<connected-socket>>:0'); the socket
   is "released" without being closed, so the late reply stays in it and is the first thing a NEW proxy made on the
   same socket reads (only the sequence check stands between that reply and the new proxy's first call, and both
   proxies start counting at 0).
2. A oneway call whose request cannot be deserialized by the server makes the server drop the connection silently;
   the next, innocent call on the proxy then fails with ConnectionClosedError on a healthy transport.
Prints what it sees; exits 0 always (these are observations, not a seed).
"""
import os
import sys
import socket
import threading
import time

sys.path.insert(0, os.path.join(os.path.dirname(os.path.abspath(__file__)), ".."))
import Pyro5.api
import Pyro5.errors
from Pyro5 import config


@Pyro5.api.expose
class Target(object):
    def slow(self, token, delay):
        time.sleep(delay)
        return "answer-" + token

    def work(self, token):
        return "answer-" + token

    @Pyro5.api.oneway
    def fire(self, arg):
        pass


print("observation 1: connected-socket proxy")
cs, ss = socket.socketpair()
daemon = Pyro5.api.Daemon(connected_socket=ss)
daemon.register(Target(), "target")
threading.Thread(target=daemon.requestLoop, daemon=True).start()
p1 = Pyro5.api.Proxy("target", connected_socket=cs)
print("  p1.work(a) ->", p1.work("a"))
p1._pyroTimeout = 0.3
try:
    print("  p1.slow(b) ->", p1.slow("b", 1.0))
except Pyro5.errors.CommunicationError as x:
    print("  p1.slow(b, 1.0) with timeout 0.3 -> %s: %s   (expected)" % (type(x).__name__, x))
time.sleep(1.2)     # the reply of slow(b) has arrived on the (still open) socket by now
try:
    print("  p1.work(c) ->", p1.work("c"))
except Exception as x:
    print("  p1.work(c) on the healthy socket pair -> %s: %s" % (type(x).__name__, x))
cs.settimeout(None)
try:
    p2 = Pyro5.api.Proxy("target", connected_socket=cs)
    print("  p2 = new proxy on the same open socket; p2.work(d) ->", p2.work("d"))
except Exception as x:
    print("  p2 = new proxy on the same open socket -> %s: %s" % (type(x).__name__, x))
    print("       (the late reply of p1.slow(b) was still in the socket that p1 'released' without closing; the sequence")
    print("        check caught it here only because the two proxies' counters happened to differ)")

print("observation 2: oneway call with an argument the server cannot deserialize")
config.SERVERTYPE = "thread"
d2 = Pyro5.api.Daemon(host="127.0.0.1", port=0)
uri = d2.register(Target(), "target")
threading.Thread(target=d2.requestLoop, daemon=True).start()


class Unknown(object):
    def __init__(self):
        self.x = 1


p = Pyro5.api.Proxy(uri)
print("  work(a) ->", p.work("a"))
print("  fire(Unknown()) [oneway] ->", p.fire(Unknown()))
time.sleep(0.2)
try:
    print("  work(b) ->", p.work("b"))
except Exception as x:
    print("  work(b) on a healthy transport -> %s: %s" % (type(x).__name__, x))
print("  work(c) ->", p.work("c"))
