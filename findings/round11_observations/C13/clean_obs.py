"""
Observations on the UNCHANGED tree (C13).  Each check prints what it saw; exit code 1 if any of them shows a violation.
"""
import os, sys, time, threading
sys.path.insert(0, os.path.abspath(os.path.join(os.path.dirname(__file__), "..")))
import Pyro5.api, Pyro5.server, Pyro5.client     # noqa: E402
from Pyro5 import config                          # noqa: E402
from Pyro5.callcontext import current_context     # noqa: E402


class Resource(object):
    def __init__(self, name):
        self.name = name
        self.close_calls = 0

    def close(self):
        self.close_calls += 1


class EqResource(Resource):
    """value semantics: two handles on the same name compare equal (like a dataclass / namedtuple-ish resource)"""
    def __eq__(self, other):
        return isinstance(other, EqResource) and other.name == self.name

    def __hash__(self):
        return hash(self.name)


KEEP = []
LATE = threading.Event()
LATE_DONE = threading.Event()


@Pyro5.api.expose
@Pyro5.api.behavior(instance_mode="single")
class Service(object):
    def numbers(self):
        for i in range(1, 100):
            yield i

    def two_equal(self):
        a, b = EqResource("same"), EqResource("same")
        KEEP.extend([a, b])
        current_context.track_resource(a)
        current_context.track_resource(b)

    @Pyro5.api.oneway
    def late_tracker(self):
        LATE.wait(10)        # the work takes a while; meanwhile the client goes away
        r = Resource("late")
        KEEP.append(r)
        current_context.track_resource(r)
        LATE_DONE.set()


class CountingDaemon(Pyro5.server.Daemon):
    def __init__(self, *a, **kw):
        super().__init__(*a, **kw)
        self.disconnects = []

    def clientDisconnect(self, conn):
        self.disconnects.append(conn)


class RacingDict(dict):
    """a dict whose get() is a synchronisation point (forces 'another thread removes the entry right now')"""
    armed = False
    racer = None

    def get(self, key, default=None):
        value = super().get(key, default)
        if self.armed and threading.current_thread().name.startswith("Pyro-Worker"):
            self.armed = False
            t = threading.Thread(target=self.racer)
            t.start()
            t.join(10)
        return value


def wait_for(cond, timeout=5.0):
    end = time.time() + timeout
    while time.time() < end and not cond():
        time.sleep(0.02)
    return cond()


def start(servertype="thread"):
    config.SERVERTYPE = servertype
    config.POLLTIMEOUT = 0.2
    d = CountingDaemon(host="127.0.0.1", port=0)
    uri = d.register(Service(), "svc")
    t = threading.Thread(target=d.requestLoop, daemon=True)
    t.start()
    return d, uri, t


def obs1_nolinger_get_then_del():
    """ITER_STREAM_LINGER=0: _clientDisconnect does get() and then 'del'; a stream closed by another thread in between
    (DaemonObject.close_stream from another connection, or the housekeeper's lifetime expiry) -> KeyError -> the user
    hook is never called for the connection."""
    config.ITER_STREAM_LINGER = 0
    d, uri, t = start("thread")
    try:
        table = RacingDict()
        d.streaming_responses = table
        victim = Pyro5.client.Proxy(uri)
        s = victim.numbers()
        sid = list(table)[0]

        def racer():
            with Pyro5.client.Proxy("PYRO:Pyro.Daemon@" + d.locationStr) as dp:
                dp.close_stream(sid)
        table.racer = racer
        table.armed = True
        victim._pyroConnection.sock.close()
        wait_for(lambda: len(d.disconnects) >= 2, timeout=2)    # victim + the racer's own connection
        n = sum(1 for c in d.disconnects)
        print("obs1: hook calls seen: %d (expected 2: the cut connection and the racer's connection)" % n)
        return n == 2
    finally:
        config.ITER_STREAM_LINGER = 30.0
        d.shutdown()
        t.join(5)


def obs2_equal_resources():
    """two distinct resources that compare equal: the WeakSet keeps one, the other is never closed"""
    d, uri, t = start("multiplex")
    try:
        del KEEP[:]
        with Pyro5.client.Proxy(uri) as p:
            p.two_equal()
        wait_for(lambda: len(d.disconnects) >= 1)
        time.sleep(0.2)
        counts = [r.close_calls for r in KEEP]
        print("obs2: close() calls on two tracked, equal-comparing, distinct resources:", counts, "(expected [1, 1])")
        return counts == [1, 1]
    finally:
        d.shutdown()
        t.join(5)


def obs3_oneway_tracks_after_close():
    """a oneway call still running when its connection ends tracks a resource afterwards: nobody ever closes it"""
    d, uri, t = start("thread")
    try:
        del KEEP[:]
        LATE.clear(); LATE_DONE.clear()
        p = Pyro5.client.Proxy(uri)
        p.late_tracker()
        time.sleep(0.2)
        p._pyroRelease()
        wait_for(lambda: len(d.disconnects) >= 1)
        time.sleep(0.2)
        LATE.set()
        LATE_DONE.wait(5)
        time.sleep(0.5)
        import gc
        gc.collect()
        counts = [r.close_calls for r in KEEP]
        print("obs3: hook calls=%d; close() calls on the resource tracked by the still running oneway call: %s (expected [1])"
              % (len(d.disconnects), counts))
        return counts == [1]
    finally:
        d.shutdown()
        t.join(5)


if __name__ == "__main__":
    results = [obs1_nolinger_get_then_del(), obs2_equal_resources(), obs3_oneway_tracks_after_close()]
    print("results (True = property held):", results)
    sys.exit(0 if all(results) else 1)
