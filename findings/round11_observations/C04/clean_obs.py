"""
Observations on the UNCHANGED tree (not used as seeds): values that are neither plain data nor one of the closed set
of classes come out of two of the serializers, because the underlying wire format can express them natively and
recreate_classes() passes anything that is not a list/tuple/set/dict through untouched. Nothing is executed or imported;
it is the "yields only plain data values and instances of a closed set" half of C04 that does not hold literally.
Prints what it sees; exits 0.
"""
import marshal
import os
import sys

sys.path.insert(0, os.path.abspath(os.path.join(os.path.dirname(os.path.abspath(__file__)), "..")))

import Pyro5.serializers as S


def show(title, fn):
    try:
        value = fn()
        print("%-62s -> %r" % (title, value))
    except Exception as x:
        print("%-62s -> rejected: %s: %s" % (title, type(x).__name__, x))


m = S.serializers["marshal"]
code = compile("__import__('os').getpid()", "<hostile>", "eval")
show("marshal loads: code object in a list", lambda: [type(v).__name__ for v in m.loads(marshal.dumps([code]))])
show("marshal loadsCall: code object as argument",
     lambda: [type(v).__name__ for v in m.loadsCall(marshal.dumps(("obj", "meth", [code], {})))[2]])
show("marshal loads: the class StopIteration itself (TYPE_STOPITER)", lambda: m.loads(marshal.dumps([StopIteration])))
show("marshal loads: Ellipsis", lambda: m.loads(marshal.dumps([Ellipsis])))

if "msgpack" in S.serializers:
    import msgpack
    mp = S.serializers["msgpack"]
    show("msgpack loads: ext type -1 (msgpack.Timestamp, never reaches ext_hook)",
         lambda: [type(v).__module__ + "." + type(v).__name__ for v in mp.loads(msgpack.packb([msgpack.Timestamp(1, 2)]))])
    show("msgpack loadsCall: ext type -1 as argument",
         lambda: [type(v).__name__ for v in mp.loadsCall(msgpack.packb(("obj", "meth", [msgpack.Timestamp(1, 2)], {})))[2]])
    show("msgpack loads: any other unknown ext type (control)", lambda: mp.loads(msgpack.packb([msgpack.ExtType(5, b"x")])))
