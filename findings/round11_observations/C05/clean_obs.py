"""
Clean-tree observation for C05 (thread-pool server, no COMMTIMEOUT - the default):
while all workers are taken, ONE client that connects and sends nothing parks the accept loop itself:
SocketServer_Threadpool.events() -> job.denyConnection() -> Daemon._handshake() first *reads* the client's
connect message, on the acceptor thread, on a socket without a timeout. Until that client goes away the daemon
accepts nobody, also after workers have become free again. Exit code 1 = observed, 0 = not observed.
"""
import os
import sys
import socket
import threading
import time

sys.path.insert(0, os.path.abspath(os.path.join(os.path.dirname(os.path.abspath(__file__)), "..")))

from Pyro5 import config, server, client   # noqa: E402


@server.expose
class Witness(object):
    def echo(self, x):
        return x


config.SERVERTYPE = "thread"
config.COMMTIMEOUT = 0.0
config.POLLTIMEOUT = 0.2
config.THREADPOOL_SIZE = 2
config.THREADPOOL_SIZE_MIN = 1
daemon = server.Daemon(host="127.0.0.1", port=0)
uri = daemon.register(Witness, "witness")
threading.Thread(target=daemon.requestLoop, daemon=True).start()
host, port = daemon.locationStr.split(":")
w1, w2 = client.Proxy(uri), client.Proxy(uri)
assert w1.echo(1) == 1 and w2.echo(2) == 2          # both workers are taken now
silent = socket.create_connection((host, int(port)))   # connects, sends nothing, stays
time.sleep(0.5)
w2._pyroRelease()                                    # a worker becomes free again
time.sleep(0.5)
print("busy workers now:", len(daemon.transportServer.pool.busy), "of", config.THREADPOOL_SIZE)
fresh = client.Proxy(uri)
fresh._pyroTimeout = 3
try:
    print("fresh connection:", fresh.echo(3))
    observed = False
except Exception as x:
    print("fresh connection FAILED although a worker is free:", repr(x))
    observed = True
print("witness w1 still served:", w1.echo("still here"))
silent.close()
time.sleep(0.5)
fresh2 = client.Proxy(uri)
fresh2._pyroTimeout = 3
print("after the silent client left, fresh connection:", fresh2.echo(4))
sys.exit(1 if observed else 0)
