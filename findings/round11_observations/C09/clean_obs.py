"""
Clean-tree observation for C09: with instance_mode="percall" the calls of ONE batch request
all run on the same instance (Daemon.handleRequest calls _getInstance once per request message,
not once per call inside the batch).  Exits 0 always; prints what it saw.
"""
import os
import sys
import threading

sys.path.insert(0, os.path.abspath(os.path.join(os.path.dirname(os.path.abspath(__file__)), "..")))

import Pyro5.api

created = []


def creator(clazz):
    obj = clazz()
    created.append(id(obj))
    return obj


@Pyro5.api.behavior(instance_mode="percall", instance_creator=creator)
@Pyro5.api.expose
class Thing(object):
    def __init__(self):
        self.calls = 0

    def call(self):
        self.calls += 1
        return self.calls      # 1 on a fresh instance


daemon = Pyro5.api.Daemon(host="127.0.0.1", port=0)
uri = daemon.register(Thing, "thing")
threading.Thread(target=daemon.requestLoop, daemon=True).start()
with Pyro5.api.Proxy(uri) as p:
    normal = [p.call(), p.call(), p.call()]
    n_before = len(created)
    batch = Pyro5.api.BatchProxy(p)
    batch.call()
    batch.call()
    batch.call()
    batched = list(batch())
    n_batch = len(created) - n_before
daemon.shutdown()
print("three ordinary calls   ->", normal, "(each on a fresh instance)")
print("three calls in a batch ->", batched, "; creator invocations for the batch:", n_batch)
if batched != [1, 1, 1]:
    print("OBSERVATION: the calls of one batch shared a single 'percall' instance")
