"""
Observations on the UNCHANGED tree (C18).  Prints what it sees; exit code 0 = nothing observed, 1 = at least one observed.
"""
import os
import sys
import time
import socket
import threading

sys.path.insert(0, os.path.abspath(os.path.join(os.path.dirname(os.path.abspath(__file__)), "..")))

import Pyro5.errors   # noqa: E402
from Pyro5 import config, server, client   # noqa: E402
from Pyro5.svr_threads import Pool   # noqa: E402

seen = []


def obs1_close_right_after_handoff():
    # a job handed to a worker that has not woken up yet is overwritten by close()'s process(None): never run, no error
    config.THREADPOOL_SIZE_MIN = 1
    config.THREADPOOL_SIZE = 1
    dropped = 0
    rounds = 50
    old = sys.getswitchinterval()
    sys.setswitchinterval(0.5)      # keep the submitting thread on the cpu between process() and close()
    try:
        for _ in range(rounds):
            ran = []
            pool = Pool()
            time.sleep(0.01)
            pool.process(lambda: ran.append(1))     # accepted: no exception
            pool.close()
            time.sleep(0.01)
            if not ran:
                dropped += 1
    finally:
        sys.setswitchinterval(old)
    print("obs1: process(job) directly followed by close(): job accepted but never run in %d of %d rounds" % (dropped, rounds))
    if dropped:
        seen.append("obs1")


def obs2_baseexception_in_job():
    # SystemExit raised by a remote method passes every 'except Exception' and ends the worker thread without notify_done
    config.THREADPOOL_SIZE_MIN = 1
    config.THREADPOOL_SIZE = 1
    config.SERVERTYPE = "thread"

    @server.expose
    class Thing(object):
        def quit(self):
            sys.exit(3)

        def hello(self):
            return "hello"

    stderr, sys.stderr = sys.stderr, open(os.devnull, "w")      # hide the thread's traceback
    daemon = server.Daemon(host="localhost", port=0)
    uri = daemon.register(Thing(), "thing")
    loop = threading.Thread(target=daemon.requestLoop, daemon=True)
    loop.start()
    try:
        with client.Proxy(uri) as p:
            p._pyroTimeout = 3
            try:
                p.quit()
            except Exception as x:
                print("obs2: the client of the call that raised SystemExit got %s: %s" % (type(x).__name__, x))
        time.sleep(0.5)
        pool = daemon.transportServer.pool
        alive = [w for w in pool.busy | pool.idle if w.is_alive()]
        print("obs2: afterwards pool is %r, live worker threads among them: %d" % (pool, len(alive)))
        with client.Proxy(uri) as p:
            p._pyroTimeout = 3
            try:
                print("obs2: next client: %s" % p.hello())
            except Exception as x:
                print("obs2: next client got %s: %s" % (type(x).__name__, x))
                seen.append("obs2")
    finally:
        daemon.shutdown()
        loop.join(5)
        sys.stderr.close()
        sys.stderr = stderr


def obs3_silent_peer_blocks_accept_loop():
    # default COMMTIMEOUT (none): the refusal handshake first reads the peer's connect message, on the accept thread
    config.THREADPOOL_SIZE_MIN = 1
    config.THREADPOOL_SIZE = 1
    config.SERVERTYPE = "thread"
    config.COMMTIMEOUT = 0.0
    release = threading.Event()

    @server.expose
    class Thing(object):
        def hello(self):
            return "hello"

        def long_call(self):
            release.wait(30)
            return "done"

    daemon = server.Daemon(host="localhost", port=0)
    uri = daemon.register(Thing(), "thing")
    loop = threading.Thread(target=daemon.requestLoop, daemon=True)
    loop.start()
    silent = None
    try:
        def client1():
            with client.Proxy(uri) as p1:
                p1.long_call()
        t1 = threading.Thread(target=client1, daemon=True)
        t1.start()
        time.sleep(0.5)
        silent = socket.create_connection((uri.host, uri.port))
        time.sleep(0.2)
        with client.Proxy(uri) as p3:
            p3._pyroTimeout = 4
            t0 = time.time()
            try:
                p3.hello()
            except Exception as x:
                print("obs3: full pool + one silent peer: next client got %s after %.1fs: %s" % (type(x).__name__, time.time() - t0, x))
                if "no free workers" not in str(x):
                    seen.append("obs3")
        release.set()
        t1.join(5)
        time.sleep(0.3)
        with client.Proxy(uri) as p4:
            p4._pyroTimeout = 4
            t0 = time.time()
            try:
                print("obs3: worker free again, next client: %s" % p4.hello())
            except Exception as x:
                print("obs3: worker free again, but next client got %s after %.1fs: %s" % (type(x).__name__, time.time() - t0, x))
    finally:
        release.set()
        if silent:
            silent.close()
        time.sleep(0.2)
        daemon.shutdown()
        loop.join(5)


if __name__ == "__main__":
    obs1_close_right_after_handoff()
    obs2_baseexception_in_job()
    obs3_silent_peer_blocks_accept_loop()
    print("observed: %s" % (seen or "nothing"))
    sys.exit(1 if seen else 0)
