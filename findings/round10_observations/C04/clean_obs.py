"""
Clean-tree observation for C04: the marshal serializer hands back objects that are neither plain data nor
members of the closed class set, because marshal.loads itself can build them and recreate_classes passes
everything that isn't a set/list/tuple/dict through untouched:
  * a code object   (marshal type 'c')  -> types.CodeType instance reachable in the decoded value
  * b'S'            (TYPE_STOPITER)     -> the class StopIteration itself (a type object, not an instance)
  * b'.'            (TYPE_ELLIPSIS)     -> Ellipsis
Nothing is executed, but "types reachable in the decoded value" is not limited to data + the closed set.
Exits 0 always (it only reports); prints what it saw.
"""
import os
import sys
import marshal

sys.path.insert(0, os.path.abspath(os.path.join(os.path.dirname(os.path.abspath(__file__)), "..")))
from Pyro5.serializers import serializers

ser = serializers["marshal"]
code = compile("__import__('os').getpid()", "<peer>", "eval")
payloads = {
    "code object in a list": marshal.dumps([1, code]),
    "TYPE_STOPITER": b"S",
    "TYPE_ELLIPSIS": b".",
    "call args holding a code object": marshal.dumps(("obj", "meth", [code], {})),
}
for what, data in payloads.items():
    if what.startswith("call"):
        value = ser.loadsCall(data)[2]
    else:
        value = ser.loads(data)
    print("%-34s -> %r" % (what, value))
