"""
Clean-tree observations for C11 (batch == the same calls one by one).  Runs on the UNCHANGED tree and prints, for
four situations, what the sequential calls give and what the batch gives.  Exit code is always 0; read the output.
"""
import os
import sys
import threading
import time

sys.path.insert(0, os.path.abspath(os.path.join(os.path.dirname(os.path.abspath(__file__)), "..")))

import Pyro5.api       # noqa: E402
import Pyro5.client    # noqa: E402

EXECUTED = []


@Pyro5.api.expose
@Pyro5.api.behavior(instance_mode="percall")
class PerCall(object):
    def __init__(self):
        self.n = 0

    def incr(self):
        self.n += 1
        return self.n


@Pyro5.api.expose
class Thing(object):
    def __init__(self):
        self.items = []

    def append(self, x):
        self.items.append(x)
        EXECUTED.append(("append", x))

    def get_items(self):
        return self.items           # the internal list itself

    def unserializable(self):
        EXECUTED.append(("unserializable",))
        return threading.Lock()     # no serializer can do this

    @Pyro5.api.oneway
    def fire(self, x):
        EXECUTED.append(("fire", x))
        if x < 0:
            raise ValueError("negative")
        return "value-of-fire"


def drain(gen):
    out = []
    while True:
        try:
            out.append(next(gen))
        except StopIteration:
            return out
        except Exception as x:
            out.append("raised %s" % type(x).__name__)
            return out


def attempt(fn):
    try:
        return fn()
    except Exception as x:
        return "raised %s" % type(x).__name__


def main():
    daemon = Pyro5.api.Daemon(host="127.0.0.1", port=0)
    threading.Thread(target=daemon.requestLoop, daemon=True).start()
    try:
        print("1. instance_mode='percall': one instance per REQUEST, so the calls of one batch share an instance")
        uri = daemon.register(PerCall)
        with Pyro5.client.Proxy(uri) as p:
            print("   one by one:", [p.incr(), p.incr(), p.incr()])
            b = Pyro5.client.BatchProxy(p)
            b.incr(), b.incr(), b.incr()
            print("   batch     :", drain(b()))

        print("2. results are serialized after ALL calls ran: a result that is (part of) the object's mutable state shows the final state")
        with Pyro5.client.Proxy(daemon.register(Thing())) as p:
            seq = [p.get_items(), p.append(1), p.get_items()]
            print("   one by one:", seq)
        with Pyro5.client.Proxy(daemon.register(Thing())) as p:
            b = Pyro5.client.BatchProxy(p)
            b.get_items(), b.append(1), b.get_items()
            print("   batch     :", drain(b()))

        print("3. a call whose RESULT cannot be serialized fails for the caller, but the batch has already executed the calls after it")
        del EXECUTED[:]
        with Pyro5.client.Proxy(daemon.register(Thing())) as p:
            for call in (lambda: p.append(1), lambda: p.unserializable(), lambda: p.append(2)):
                r = attempt(call)
                if isinstance(r, str) and r.startswith("raised"):
                    break
            print("   one by one: caller saw %r; executed %r" % (r, EXECUTED))
        del EXECUTED[:]
        with Pyro5.client.Proxy(daemon.register(Thing())) as p:
            b = Pyro5.client.BatchProxy(p)
            b.append(1), b.unserializable(), b.append(2)
            r = attempt(lambda: drain(b()))
            print("   batch     : caller saw %r; executed %r" % (r, EXECUTED))

        print("4. an @oneway method in a NORMAL batch is run inline: its return value / exception is delivered and an exception stops the batch")
        del EXECUTED[:]
        with Pyro5.client.Proxy(daemon.register(Thing())) as p:
            seq = [attempt(lambda: p.fire(1)), attempt(lambda: p.fire(-1)), attempt(lambda: p.append(3))]
            time.sleep(0.3)
            print("   one by one: %r; executed %r" % (seq, sorted(EXECUTED, key=repr)))
        del EXECUTED[:]
        with Pyro5.client.Proxy(daemon.register(Thing())) as p:
            b = Pyro5.client.BatchProxy(p)
            b.fire(1), b.fire(-1), b.append(3)
            r = drain(b())
            time.sleep(0.3)
            print("   batch     : %r; executed %r" % (r, sorted(EXECUTED, key=repr)))
    finally:
        daemon.shutdown()


if __name__ == "__main__":
    main()
