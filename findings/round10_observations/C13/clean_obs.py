"""
Clean-tree observations for C13 (run on the UNCHANGED tree).  Prints what it sees; exit code 0 always.

 1. A tracked resource whose close() un-tracks itself (a natural thing to write: "close() releases
    everything, including the tracking") makes SocketConnection.close() blow up with
    'RuntimeError: Set changed size during iteration' -> the remaining resources of that
    connection are never closed.
 2. The same resource object tracked on two connections is closed twice (once per connection).
 3. Two distinct resources that compare equal (__eq__/__hash__) collapse into one WeakSet entry:
    the second is never closed.
"""
import os
import sys
import time
import threading

sys.path.insert(0, os.path.abspath(os.path.join(os.path.dirname(os.path.abspath(__file__)), "..")))

import Pyro5.server         # noqa: E402
import Pyro5.client         # noqa: E402
from Pyro5 import config    # noqa: E402
from Pyro5.callcontext import current_context   # noqa: E402


class SelfUntracking(object):
    def __init__(self, tag):
        self.tag, self.closes = tag, 0

    def close(self):
        self.closes += 1
        try:
            current_context.untrack_resource(self)
        except Exception:
            pass


class Plain(object):
    def __init__(self, tag):
        self.tag, self.closes = tag, 0

    def close(self):
        self.closes += 1


class EqualByName(Plain):
    def __eq__(self, other):
        return isinstance(other, EqualByName) and other.tag.lower() == self.tag.lower()

    def __hash__(self):
        return hash(self.tag.lower())


KEEP = {}
SHARED = Plain("shared")


class Service(object):
    @Pyro5.server.expose
    def alloc_self_untracking(self, n):
        for i in range(n):
            r = KEEP["su%d" % i] = SelfUntracking("su%d" % i)
            current_context.track_resource(r)

    @Pyro5.server.expose
    def alloc_shared(self):
        current_context.track_resource(SHARED)

    @Pyro5.server.expose
    def alloc_equal(self):
        for tag in ("Name", "name"):
            r = KEEP[tag] = EqualByName(tag)
            current_context.track_resource(r)


def start_daemon(servertype):
    config.SERVERTYPE = servertype
    config.POLLTIMEOUT = 0.1
    d = Pyro5.server.Daemon(host="127.0.0.1", port=0)
    uri = d.register(Service(), "svc")
    t = threading.Thread(target=d.requestLoop, daemon=True)
    t.start()
    return d, uri, t


def stop_daemon(d, t):
    if t.is_alive():
        d.shutdown()
    else:
        d.close()


def run(servertype):
    # --- 1 ---
    KEEP.clear()
    d, uri, t = start_daemon(servertype)
    with Pyro5.client.Proxy(uri) as p:
        p.alloc_self_untracking(4)
    time.sleep(0.5)
    print("[%s] 1. four self-untracking resources on one connection, closes per resource: %s" %
          (servertype, sorted((k, v.closes) for k, v in KEEP.items())))
    print("[%s]    daemon request loop still alive afterwards: %s" % (servertype, t.is_alive()))
    stop_daemon(d, t)
    # --- 2 ---
    SHARED.closes = 0
    d, uri, t = start_daemon(servertype)
    with Pyro5.client.Proxy(uri) as p1, Pyro5.client.Proxy(uri) as p2:
        p1.alloc_shared()
        p2.alloc_shared()
    time.sleep(0.5)
    print("[%s] 2. one resource tracked on two connections was closed %d times" % (servertype, SHARED.closes))
    # --- 3 ---
    KEEP.clear()
    with Pyro5.client.Proxy(uri) as p:
        p.alloc_equal()
    time.sleep(0.5)
    print("[%s] 3. two distinct but equal-comparing resources, closes per resource: %s" %
          (servertype, sorted((k, v.closes) for k, v in KEEP.items())))
    stop_daemon(d, t)


if __name__ == "__main__":
    for st in ("thread", "multiplex"):
        run(st)
    os._exit(0)
