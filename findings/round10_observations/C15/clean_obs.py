"""
Clean-tree observation for C15 (NOT a seed): the empty string is a legal, registrable name,
but remove(name="") never removes it - remove() tests `if name and name in self.storage`, so a
falsy name falls through to `return 0`.  A map-model / linearizability check that includes the
name "" therefore sees remove("") -> 0 while the entry exists before and after, single-threaded
and with either storage.  Exits 1 when the behaviour is present.
"""
import os
import sys

sys.path.insert(0, os.path.abspath(os.path.join(os.path.dirname(os.path.abspath(__file__)), "..")))
import Pyro5.nameserver     # noqa: E402

ns = Pyro5.nameserver.NameServer()
ns.register("", "PYRO:obj@host:1234", safe=True)
print("lookup('')      ->", ns.lookup(""))
removed = ns.remove("")
print("remove('')      ->", removed)
print("list() after    ->", ns.list())
print("remove(regex='^$') ->", ns.remove(regex="^$"), "(the only way to get rid of it)")
if removed != 1:
    print("OBSERVED: remove('') reported %d and left the registration in place" % removed)
    sys.exit(1)
