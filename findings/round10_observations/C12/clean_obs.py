"""Clean-tree observation: a remote method that itself calls another Pyro object (nested call)
gets its thread's response_annotations replaced by those of the nested reply, so
 (1) annotations it set before the nested call are lost, and
 (2) the annotations of the *nested* reply (a different call, from a different server) are sent
     with the outer reply to the outer client.
Exit code is always 0: this only reports."""
import os, sys, threading
sys.path.insert(0, os.path.abspath(os.path.join(os.path.dirname(os.path.abspath(__file__)), "..")))
import Pyro5.api as api
from Pyro5.api import current_context, expose, Daemon, Proxy


@expose
class Inner(object):
    def work(self):
        current_context.response_annotations["INNR"] = b"secret of the inner server"
        return "inner done"


@expose
class Outer(object):
    def __init__(self, inner_uri):
        self.inner_uri = inner_uri

    def work(self):
        current_context.response_annotations["OUTR"] = b"set by outer before nested call"
        with Proxy(self.inner_uri) as p:
            p.work()
        return "outer done"


class EchoUserDaemon(Daemon):
    """daemon whose annotations() hook derives the reply annotations from the call context (echoes the caller's USER)"""
    def annotations(self):
        return {"ECHO": bytes(current_context.annotations.get("USER", b"<nobody>"))}

    def validateHandshake(self, conn, data):
        self.seen_in_handshake = {k: bytes(v) for k, v in current_context.annotations.items()}, current_context.client
        return "hello"


def observation_2():
    """_handshake refreshes only the correlation id of the thread's context. The hooks that run during a handshake
    (validateHandshake, annotations) still read client / peer address / request annotations of the request that this
    thread served last - with the multiplex server that is a request of a different client."""
    from Pyro5.api import config
    config.SERVERTYPE = "multiplex"
    d = EchoUserDaemon(port=0)
    uri = d.register(Inner(), "inner")
    threading.Thread(target=d.requestLoop, daemon=True).start()

    def alice():
        current_context.annotations = {"USER": b"alice"}
        with Proxy(uri) as p:
            p.work()

    result = {}

    def bob():
        # bob sets no annotations; he only connects
        with Proxy(uri) as p:
            p._pyroBind()
            result["handshake_annotations"] = {k: bytes(v) for k, v in current_context.response_annotations.items()}

    for f in (alice, bob):
        t = threading.Thread(target=f); t.start(); t.join()
    print("handshake answer received by bob carries:", result["handshake_annotations"])
    print("validateHandshake for bob's connection read request annotations %r and a calling connection %r"
          % d.seen_in_handshake)
    if result["handshake_annotations"].get("ECHO") == b"alice":
        print("OBSERVATION: daemon annotations computed from the call context during bob's handshake are alice's")
    d.shutdown()
    config.SERVERTYPE = "thread"


def main():
    observation_2()
    d1 = Daemon(port=0)
    inner_uri = d1.register(Inner(), "inner")
    d2 = Daemon(port=0)
    outer_uri = d2.register(Outer(inner_uri), "outer")
    for d in (d1, d2):
        threading.Thread(target=d.requestLoop, daemon=True).start()
    with Proxy(outer_uri) as p:
        p.work()
        got = {k: bytes(v) for k, v in current_context.response_annotations.items()}
    print("outer client received response annotations:", got)
    if "INNR" in got:
        print("OBSERVATION: annotation of the nested reply (inner server -> outer server) reached the outer client")
    if "OUTR" not in got:
        print("OBSERVATION: annotation set by the outer method before its nested call was dropped")
    d1.shutdown(); d2.shutdown()


if __name__ == "__main__":
    main()
