"""
Clean-tree observation for C09: a batch of calls on a 'percall' class is served by ONE instance
(Daemon.handleRequest resolves the instance once per request message, and a batch is one message),
although the property says that with 'percall' every call gets a fresh instance.
Exits 1 when the observation holds (i.e. on the unchanged tree), 0 otherwise.
"""
import os
import sys
import threading

sys.path.insert(0, os.path.abspath(os.path.join(os.path.dirname(os.path.abspath(__file__)), "..")))

import Pyro5.api        # noqa: E402
import Pyro5.server     # noqa: E402

constructed = []


@Pyro5.server.behavior(instance_mode="percall")
@Pyro5.server.expose
class Stateless(object):
    def __init__(self):
        constructed.append(len(constructed) + 1)
        self.serial = constructed[-1]
        self.calls = 0

    def call(self):
        self.calls += 1
        return self.serial, self.calls


daemon = Pyro5.server.Daemon(host="127.0.0.1", port=0)
uri = daemon.register(Stateless, "stateless")
loop = threading.Thread(target=daemon.requestLoop, daemon=True)
loop.start()
try:
    with Pyro5.api.Proxy(uri) as p:
        plain = [tuple(p.call()) for _ in range(3)]
        batch = Pyro5.api.BatchProxy(p)
        for _ in range(3):
            batch.call()
        batched = [tuple(r) for r in batch()]
finally:
    daemon.shutdown()
    loop.join(5)
    daemon.close()
print("3 plain calls   (instance serial, calls seen):", plain)
print("3 batched calls (instance serial, calls seen):", batched)
print("instances constructed:", len(constructed))
shared = len({s for s, _ in batched}) < len(batched)
print("batched calls on a percall class share one instance:", shared)
sys.exit(1 if shared else 0)
