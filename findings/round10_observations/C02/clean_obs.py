"""
Observations on the UNCHANGED tree (property C02).  Prints what happens; exits 0 always.
Run:  /venv/bin/python _seed/clean_obs.py
"""
import os
import sys
import time
import threading

sys.path.insert(0, os.path.abspath(os.path.join(os.path.dirname(os.path.abspath(__file__)), "..")))

import Pyro5.server
import Pyro5.client
import Pyro5.core
import Pyro5.errors
import Pyro5.protocol
from Pyro5 import config

LOG = []


@Pyro5.server.expose
class Helper(object):
    """a class that is exposed as a whole (it is meant to be registered elsewhere, or handed out by autoproxy)"""
    def __init__(self, *args, **kwargs):
        LOG.append(("Helper.__init__", args, kwargs))

    def __call__(self, *args):
        LOG.append(("Helper.__call__", args))
        return "helper called"

    def work(self):
        return "work"


class Target(object):
    factory = Helper             # plain class attribute: neither a method nor a property, never decorated

    def __init__(self):
        self.helper = Helper()   # plain instance attribute (nested helper object)
        self.secret = "s3cret"
        del LOG[:]

    @Pyro5.server.expose
    def ok(self):
        return "ok"

    def __repr__(self):
        LOG.append(("Target.__repr__",))
        return "<Target secret=%s>" % self.secret


def call(proxy, name, *args, **flags):
    before = len(LOG)
    try:
        r = proxy._pyroInvoke(name, args, {}, **flags)
        out = "RESULT %r" % (r,)
    except Exception as x:
        out = "%s: %s" % (type(x).__name__, str(x).splitlines()[0][:100])
    time.sleep(0.1)
    return out, LOG[before:]


def main():
    daemon = Pyro5.server.Daemon(host="localhost", port=0)
    uri = daemon.register(Target(), "target")
    threading.Thread(target=daemon.requestLoop, daemon=True).start()
    try:
        meta = daemon.objectsById[Pyro5.core.DAEMON_NAME].get_metadata("target")
        print("advertised:", meta)

        print("\n-- 1. attributes whose VALUE carries the class-level _pyroExposed mark pass the method gate")
        with Pyro5.client.Proxy(uri) as p:
            p._pyroBind()
            print("normal 'helper' :", call(p, "helper", "attacker-arg"))
            print("normal 'factory':", call(p, "factory", "attacker-arg"))
            print("oneway 'helper' :", call(p, "helper", "ow", flags=Pyro5.protocol.FLAGS_ONEWAY))
            del LOG[:]
            try:
                r = list(p._pyroInvokeBatch([("helper", ("b",), {}), ("factory", ("b",), {})]))
            except Exception as x:
                r = repr(x)
            print("batch  both     :", [type(x).__name__ for x in r] if isinstance(r, list) else r, LOG)
        print("   => 'helper'/'factory' are not in the advertised list, are neither methods nor properties,")
        print("      yet Helper.__call__ / Helper.__init__ ran with the peer's arguments.")
        print("      (_get_attribute accepts any attribute value with a truthy _pyroExposed; expose() on a class sets")
        print("       clazz._pyroExposed, which every instance - and every subclass - of that class inherits;")
        print("       tests/test_server.py::testResolveAttr even asserts that such a nested object is returned)")

        print("\n-- 2. DETAILED_TRACEBACK=True: refusing a request runs the target's __repr__ and ships it to the peer")
        config.DETAILED_TRACEBACK = True
        try:
            with Pyro5.client.Proxy(uri) as p:
                p._pyroBind()
                for name in ("secret", "_anything"):
                    del LOG[:]
                    try:
                        p._pyroInvoke(name, (), {})
                    except AttributeError as x:
                        tb = "".join(getattr(x, "_pyroTraceback", []))
                        print("refused %r; target code that ran: %r" % (name, LOG))
                        print("   reply contains the VALUE of the unexposed plain attribute ('s3cret'):", "obj = 's3cret'" in tb)
                        print("   reply contains the repr of the object:", "<Target secret=s3cret>" in tb)
        finally:
            config.DETAILED_TRACEBACK = False

        print("\n-- 3. json serializer, member name with a lone surrogate: the refusal cannot be serialized, no error reply")
        with Pyro5.client.Proxy(uri) as p:
            p._pyroSerializer = "json"
            p._pyroTimeout = 3
            p._pyroBind()
            # json.dumps(ensure_ascii=False).encode() cannot carry a surrogate, so build the request by hand
            import json
            from Pyro5 import serializers, protocol
            body = json.dumps({"object": "target", "method": "x\udc80y", "params": [], "kwargs": {}}).encode("ascii")
            msg = protocol.SendingMessage(protocol.MSG_INVOKE, 0, 1, serializers.JsonSerializer.serializer_id, body)
            p._pyroConnection.send(msg.data)
            try:
                reply = protocol.recv_stub(p._pyroConnection, [protocol.MSG_RESULT])
                print("reply flags=%d (exception flag=%s)" % (reply.flags, bool(reply.flags & protocol.FLAGS_EXCEPTION)))
            except Exception as x:
                print("no error reply for a non-oneway refused request:", type(x).__name__, x)
    finally:
        daemon.shutdown()


if __name__ == "__main__":
    main()
