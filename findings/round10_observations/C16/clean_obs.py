"""
Observations on the UNCHANGED tree that look like violations of C16 (run: /venv/bin/python _seed/clean_obs.py).
Nothing here is used as a seed. Each observation prints OBSERVED (the questionable behaviour is there) or not observed.
"""
import gc
import os
import sys

sys.path.insert(0, os.path.abspath(os.path.join(os.path.dirname(__file__), "..")))

import Pyro5.client           # noqa: E402
import Pyro5.core             # noqa: E402
import Pyro5.errors           # noqa: E402
import Pyro5.server           # noqa: E402
import Pyro5.serializers      # noqa: E402


@Pyro5.server.expose
class Thing(object):
    def __init__(self, name):
        self.name = name

    def whoami(self):
        return self.name


def obs1_stale_weak_finalizer():
    """the finalizer of an earlier weak registration is never detached: when that object dies later on,
    it unregisters whatever is registered under the id by then"""
    with Pyro5.server.Daemon(port=0) as d:
        a, b = Thing("a"), Thing("b")
        d.register(a, "slot", weak=True)
        d.unregister("slot")                # or d.unregister(a): same result
        d.register(b, "slot")               # a strong, unrelated registration under the same id
        before = "slot" in d.objectsById
        del a
        gc.collect()
        after = "slot" in d.objectsById
        print("obs1: 'slot' registered (object b) before a died: %s, after a died: %s -> %s"
              % (before, after, "OBSERVED" if before and not after else "not observed"))


def obs2_urifor_after_unregister_by_id():
    """unregister by id leaves _pyroId on the object; uriFor/proxyFor only check that the id is in the table,
    so they answer for an object that is not registered (the id belongs to another object now)"""
    with Pyro5.server.Daemon(port=0) as d:
        a, b = Thing("a"), Thing("b")
        d.register(a, "slot")
        d.unregister("slot")
        d.register(b, "slot")
        try:
            uri = d.uriFor(a)
            p = d.proxyFor(a)
            print("obs2: uriFor(a) -> %s, proxyFor(a) -> %s although a is not registered (id belongs to b) -> OBSERVED" % (uri, p._pyroUri))
        except Pyro5.errors.DaemonError as x:
            print("obs2: refused (%s) -> not observed" % x)


def obs3_id_with_at_sign():
    """an id containing '@' is accepted, but the uri handed out for it addresses another id"""
    with Pyro5.server.Daemon(port=0) as d:
        a = Thing("a")
        try:
            uri = d.register(a, "user@example")
        except Exception as x:
            print("obs3: refused (%s: %s) -> not observed" % (type(x).__name__, x))
            return
        print("obs3: register(a, 'user@example') -> uri %s, uri.object=%r, host=%r; registered=%s -> %s"
              % (uri, uri.object, uri.host, "user@example" in d.objectsById,
                 "OBSERVED" if uri.object != "user@example" else "not observed"))


def obs4_unregister_instance_of_registered_class():
    """unregister(instance of a registered class) removes the CLASS registration and then raises AttributeError"""
    with Pyro5.server.Daemon(port=0) as d:
        d.register(Thing, "things")
        inst = Thing("x")
        try:
            d.unregister(inst)
            outcome = "returned normally"
        except AttributeError as x:
            outcome = "raised AttributeError(%s)" % x
        print("obs4: unregister(instance) %s; class still registered: %s -> %s"
              % (outcome, "things" in d.objectsById, "OBSERVED" if "things" not in d.objectsById else "not observed"))
        if hasattr(Thing, "_pyroId"):
            del Thing._pyroId
        if hasattr(Thing, "_pyroDaemon"):
            del Thing._pyroDaemon


def obs5_serpent_class_to_dict_overrides_autoproxy():
    """with serpent, register_class_to_dict(cls, conv) after daemon.register(obj) replaces the auto-proxy hook
    of that class: a registered object then travels by value"""
    @Pyro5.server.expose
    class Local(object):       # a class of its own: serpent matches hooks with isinstance() in registration order
        def __init__(self, name):
            self.name = name

        def whoami(self):
            return self.name
    ser = Pyro5.serializers.serializers["serpent"]
    with Pyro5.server.Daemon(port=0) as d:
        o = Local("o")
        d.register(o, "local")
        first = ser.loads(ser.dumps(o))
        Pyro5.serializers.SerializerBase.register_class_to_dict(Local, lambda obj: {"__class__": "dict", "name": obj.name})
        try:
            second = ser.loads(ser.dumps(o))
        except Exception as x:
            second = "%s: %s" % (type(x).__name__, x)
        finally:
            Pyro5.serializers.SerializerBase.unregister_class_to_dict(Local)
        print("obs5: registered object via serpent: before converter -> %s, after converter -> %r -> %s"
              % (type(first).__name__, second, "OBSERVED" if isinstance(first, Pyro5.client.Proxy)
                 and not isinstance(second, Pyro5.client.Proxy) else "not observed"))


if __name__ == "__main__":
    for f in (obs1_stale_weak_finalizer, obs2_urifor_after_unregister_by_id, obs3_id_with_at_sign,
              obs4_unregister_instance_of_registered_class, obs5_serpent_class_to_dict_overrides_autoproxy):
        try:
            f()
        except Exception as x:       # an observation script must never stop half way
            print("%s: unexpected %s: %s" % (f.__name__, type(x).__name__, x))
