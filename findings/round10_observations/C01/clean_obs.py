"""
Observations on the UNCHANGED tree that touch property C01 (not used as seeds).
Prints what it sees; exits 0 always.
"""
import os
import sys
import time
import datetime
import threading

sys.path.insert(0, os.path.abspath(os.path.join(os.path.dirname(os.path.abspath(__file__)), "..")))

import Pyro5.serializers
import Pyro5.server
import Pyro5.client
from Pyro5 import config

sers = Pyro5.serializers.serializers


def attempt(label, func):
    try:
        print("%-70s -> %r" % (label, func()))
    except Exception as x:
        print("%-70s -> %s: %s" % (label, type(x).__name__, str(x)[:90]))


print("== 1. serpent: complex number with a NaN part (complex and non-finite floats are both in the domain)")
ser = sers["serpent"]
for v in (complex(float("nan"), 1.0), complex(1.0, float("nan")), complex(float("inf"), 1.0)):
    attempt("serpent loads(dumps(%r))" % (v,), lambda v=v: ser.loads(ser.dumps(v)))
print("   wire form:", ser.dumps(complex(float("nan"), 1.0)))

print("== 2. msgpack: naive datetime inside a DST gap / fold, process time zone with DST")
os.environ["TZ"] = "Europe/Amsterdam"
time.tzset()
ser = sers["msgpack"]
for v in (datetime.datetime(2021, 3, 28, 2, 30), datetime.datetime(2021, 10, 31, 2, 30, fold=1), datetime.datetime(2021, 6, 1, 12, 0)):
    attempt("msgpack loads(dumps(%r)) fold=%d" % (v, v.fold), lambda v=v: (lambda r: (r, r.fold))(ser.loads(ser.dumps(v))))

print("== 3. integers with more than 4300 decimal digits (Python's int<->str limit) - only marshal carries them")
big = 10 ** 5000
for name in sorted(sers):
    attempt("%s loads(dumps(10**5000)) == 10**5000" % name, lambda name=name: sers[name].loads(sers[name].dumps(big)) == big)

print("== 4. SerializedBlob.deserialized() on the receiving side, per serializer (expected [1, 2, 3])")


@Pyro5.server.expose
class BlobTarget(object):
    def blob(self, blob):
        return blob.info, blob.deserialized()


config.SERVERTYPE = "thread"
daemon = Pyro5.server.Daemon(host="127.0.0.1", port=0)
uri = daemon.register(BlobTarget(), "blobtarget")
threading.Thread(target=daemon.requestLoop, daemon=True).start()
for name in sorted(sers):
    with Pyro5.client.Proxy(uri) as p:
        p._pyroSerializer = name
        attempt("%s proxy.blob(SerializedBlob('info', [1, 2, 3]))" % name, lambda: p.blob(Pyro5.client.SerializedBlob("info", [1, 2, 3])))
daemon.shutdown()
