"""
Observations on the UNCHANGED tree that already contradict property C07 (not used as seeds).
Run:  /venv/bin/python _seed/clean_obs.py      (always exits 0, it only prints)
"""
import os
import sys
import threading
import builtins

sys.path.insert(0, os.path.abspath(os.path.join(os.path.dirname(os.path.abspath(__file__)), "..")))

import Pyro5.server
import Pyro5.client
import Pyro5.errors
import Pyro5.core
import Pyro5.serializers

threading.excepthook = lambda args: None    # a worker thread dies on KeyboardInterrupt/SystemExit/GeneratorExit: keep the output readable


@Pyro5.server.expose
class T(object):
    def ping(self):
        return "pong"

    def boom(self, clsname, *args):
        cls = getattr(Pyro5.errors, clsname, None) or getattr(builtins, clsname)
        raise cls(*args)

    def boom_uri(self):
        raise ValueError(Pyro5.core.URI("PYRO:obj@host:1234"))

    def boom_group(self):
        raise ExceptionGroup("several", [ValueError(1), KeyError("k")])


d = Pyro5.server.Daemon(host="127.0.0.1", port=0)
uri = d.register(T, "t")
threading.Thread(target=d.requestLoop, daemon=True).start()


def show(label, func, proxy):
    try:
        func()
        out = "no exception"
    except BaseException as x:
        out = "%s.%s%r remote-tb=%s" % (type(x).__module__, type(x).__name__, x.args, bool(getattr(x, "_pyroTraceback", None)))
    try:
        nxt = repr(proxy.ping())
    except BaseException as x:
        nxt = "FAILED %s: %s" % (type(x).__name__, x)
    print("%-46s -> %s | next call on same proxy: %s" % (label, out, nxt))


print("1. a method that raises a Pyro5 CommunicationError subclass: no reply is sent, the connection is dropped")
print("2. SecurityError is delivered, but the server drops the connection and the proxy does not notice: next call fails")
print("3. BaseException-only classes (KeyboardInterrupt, SystemExit, GeneratorExit): worker thread dies, connection dropped")
for name in ("ValueError", "CommunicationError", "TimeoutError", "ProtocolError", "MessageTooLargeError", "ConnectionClosedError",
             "SerializeError", "SecurityError", "KeyboardInterrupt", "SystemExit", "GeneratorExit"):
    with Pyro5.client.Proxy(uri) as p:
        p._pyroTimeout = 5
        show("raise %s('x', 1)" % name, lambda: p.boom(name, "x", 1), p)
print("4. class dicts nested inside exception args are not turned back into objects (URI stays a dict;")
print("   an ExceptionGroup cannot be rebuilt at all because its members arrive as dicts)")
with Pyro5.client.Proxy(uri) as p:
    p._pyroTimeout = 5
    show("raise ValueError(URI('PYRO:obj@host:1234'))", p.boom_uri, p)
    if hasattr(builtins, "ExceptionGroup"):
        show("raise ExceptionGroup('several', [ValueError(1), ..])", p.boom_group, p)
d.shutdown()
