"""
Observations on the UNCHANGED tree that touch property C14 (not used as seeds).  Prints what it sees; always exits 0.
"""
import os
import sys
import threading

sys.path.insert(0, os.path.abspath(os.path.join(os.path.dirname(os.path.abspath(__file__)), "..")))

import Pyro5.core         # noqa: E402
import Pyro5.client       # noqa: E402
import Pyro5.nameserver   # noqa: E402
from Pyro5 import config  # noqa: E402


def obs1_class_name_over_the_wire():
    print("--- 1. a registration named '__class__' makes list()/yplookup() results undeserializable for remote clients")
    config.POLLTIMEOUT = 0.1
    uri, nsd, _ = Pyro5.nameserver.start_ns(host="127.0.0.1", port=0, enableBroadcast=False)
    t = threading.Thread(target=nsd.requestLoop, daemon=True)
    t.start()
    try:
        with Pyro5.client.Proxy(uri) as ns:
            ns.register("__class__", "PYRO:obj@host:1", metadata={"t"})
            print("   lookup('__class__') ->", ns.lookup("__class__"))
            for what, call in (("list()", lambda: ns.list()),
                               ("list(prefix='__')", lambda: ns.list(prefix="__")),
                               ("yplookup(meta_any={'t'})", lambda: ns.yplookup(meta_any={"t"}))):
                try:
                    print("   %s -> %r" % (what, call()))
                except Exception as x:
                    print("   %s -> RAISED %s: %s" % (what, type(x).__name__, x))
            print("   in-process list() ->", nsd.nameserver.list())
    finally:
        nsd.shutdown()
        t.join()
        nsd.close()


def obs2_memory_aliasing():
    print("--- 2. in-process: list(return_metadata=True)/yplookup() on the memory back-end hand out the STORED tag sets")
    for label, storage in (("memory", Pyro5.nameserver.MemoryStorage()),):
        ns = Pyro5.nameserver.NameServer(storage)
        ns.register("a", "PYRO:a@h:1", metadata={"x"})
        ns.list(return_metadata=True)["a"][1].add("smuggled")
        print("   [%s] after mutating the set returned by list(): lookup ->" % label, ns.lookup("a", return_metadata=True)[1])
        ns.yplookup(meta_all={"x"})["a"][1].add("smuggled2")
        print("   [%s] after mutating the set returned by yplookup(): lookup ->" % label, ns.lookup("a", return_metadata=True)[1])
    print("   (the sqlite back-end builds fresh sets, so the two back-ends are distinguishable for in-process users)")


def obs3_resolve_delay_time():
    print("--- 3. core.resolve('PYRONAME:..', delay_time=N) passes delay_time in the return_metadata position")
    config.POLLTIMEOUT = 0.1
    uri, nsd, _ = Pyro5.nameserver.start_ns(host="127.0.0.1", port=0, enableBroadcast=False)
    t = threading.Thread(target=nsd.requestLoop, daemon=True)
    t.start()
    try:
        nsd.nameserver.register("thing", "PYRO:thing@host:1", metadata={"m"})
        loc = "PYRONAME:thing@127.0.0.1:%d" % uri.port
        print("   resolve(%s)               -> %r" % (loc, Pyro5.core.resolve(loc)))
        print("   resolve(%s, delay_time=1) -> %r" % (loc, Pyro5.core.resolve(loc, delay_time=1)))
    finally:
        nsd.shutdown()
        t.join()
        nsd.close()


if __name__ == "__main__":
    for f in (obs1_class_name_over_the_wire, obs2_memory_aliasing, obs3_resolve_delay_time):
        try:
            f()
        except Exception as x:
            print("   observation raised %s: %s" % (type(x).__name__, x))
