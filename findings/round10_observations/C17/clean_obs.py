"""
Clean-tree observations for C17 (UNCHANGED tree). Prints what it sees; always exits 0.

1. send_data() in timeout mode slices the remaining buffer with the *byte* count returned by send():
   'data = data[sent:]'.  For a buffer object whose items are wider than one byte (array.array('I'),
   a memoryview with itemsize 4 - both are accepted by socket.send) a partial write then skips
   sent*itemsize bytes instead of sent bytes: bytes are silently dropped, no error is raised.
   (protocol.SendingMessage casts annotation memoryviews to 'B' and always hands bytes to send(), so the
   Pyro message path itself is not affected; only direct users of send_data / SocketConnection.send /
   Pyro4 socketutil.sendData with such buffers are.)

2. On Python >= 3.10 socket.timeout is the builtin TimeoutError, and OSError(errno.ETIMEDOUT) *is* a
   TimeoutError instance.  So a fatal ETIMEDOUT from recv() (dead peer detected by tcp keepalive /
   retransmission timeout) is reported by receive_data as errors.TimeoutError instead of
   ConnectionClosedError, and the bytes received so far are not attached (TimeoutError has no partialData).
"""
import os
import sys
import array
import errno

sys.path.insert(0, os.path.abspath(os.path.join(os.path.dirname(os.path.abspath(__file__)), "..")))

from Pyro5 import socketutil, errors   # noqa: E402


class PartialWriter:
    def __init__(self, step):
        self.step = step
        self.accepted = bytearray()

    def gettimeout(self):
        return 2.0

    def send(self, data, flags=0):
        raw = bytes(data)
        n = min(self.step, len(raw))
        self.accepted.extend(raw[:n])
        return n


buf = array.array("I", range(100))      # 400 bytes
sock = PartialWriter(step=40)
socketutil.send_data(sock, memoryview(buf))
print("1. send_data(memoryview of 100 uint32 = %d bytes), peer takes 40 bytes per send(): peer got %d bytes, %s"
      % (len(bytes(buf)), len(sock.accepted), "exact" if bytes(sock.accepted) == bytes(buf) else "NOT the buffer (bytes dropped, no exception)"))


class EtimedoutAfter:
    def __init__(self):
        self.calls = 0

    def recv(self, size, flags=0):
        self.calls += 1
        if self.calls == 1:
            return b"abc"
        raise OSError(errno.ETIMEDOUT, os.strerror(errno.ETIMEDOUT))


try:
    socketutil.receive_data(EtimedoutAfter(), 10)
except errors.CommunicationError as x:
    print("2. recv: 3 bytes then fatal ETIMEDOUT -> %s, partialData=%r" % (type(x).__name__, getattr(x, "partialData", "<none>")))
