"""
Clean-tree observations for C08 (UNCHANGED tree): validator behaviours for which the peer does NOT get a
connect-failure, or the connection is NOT closed.  Prints what it sees; exits 0 always (informational).
"""
import os, sys, socket, threading, time
sys.path.insert(0, os.path.join(os.path.dirname(os.path.abspath(__file__)), ".."))
import Pyro5.api, Pyro5.server, Pyro5.errors, Pyro5.protocol as P, Pyro5.serializers as S
from Pyro5 import config

ser = S.serializers_by_id[S.MarshalSerializer.serializer_id]
CONNECT = P.SendingMessage(P.MSG_CONNECT, 0, 1, ser.serializer_id, ser.dumps({"handshake": "x", "object": "Pyro.Daemon"})).data


def probe(validator, servertype="thread", wait=2.0):
    config.SERVERTYPE = servertype
    class D(Pyro5.server.Daemon):
        def validateHandshake(self, conn, data):
            return validator()
    d = D(port=0)
    threading.Thread(target=d.requestLoop, daemon=True).start()
    time.sleep(0.2)
    host, port = d.locationStr.split(":")
    s = socket.create_connection((host, int(port)))
    s.sendall(CONNECT)
    s.settimeout(wait)
    got, state = b"", "?"
    try:
        while True:
            c = s.recv(65536)
            if not c:
                state = "closed by daemon"
                break
            got += c
    except socket.timeout:
        state = "STILL OPEN after %.0fs" % wait
    s.close()
    reply = None
    if len(got) >= 40:
        m = P.ReceivingMessage(got[:40]); m.add_payload(got[40:])
        reply = (m.type, S.serializers_by_id[m.serializer_id].loads(m.data))
    pool = getattr(d.transportServer, "pool", None)
    busy = len(pool.busy) if pool else None
    d.shutdown()
    config.SERVERTYPE = "thread"
    return reply, state, busy


def raise_(x):
    raise x

print("1. validator raises ValueError            :", probe(lambda: raise_(ValueError("no"))))
print("2. validator raises ConnectionClosedError :", probe(lambda: raise_(Pyro5.errors.ConnectionClosedError("auth backend gone"))))
print("3. validator raises SystemExit (thread)   :", probe(lambda: raise_(SystemExit(3))))
class Ugly(Exception):
    def __str__(self):
        raise RuntimeError("no str for you")
print("4. validator raises exc whose __str__ raises:", probe(lambda: raise_(Ugly())))
