"""
Clean-tree observations for C05 (UNCHANGED tree, default config: COMMTIMEOUT = 0).
Prints what it sees; exits 0 always (it documents behaviour, it is not a seed demo).

 1. multiplex server: ONE client that sends a prefix of a message (6 header bytes) and then just stays
    connected stalls the whole daemon: the single event-loop thread sits in recv() for the rest of it.
 2. thread server: when the pool is full, the surplus connection is refused by running the handshake in
    the ACCEPT thread (denyConnection -> Daemon._handshake -> recv_stub). A surplus client that connects and
    sends nothing therefore blocks the accept loop; nobody can connect any more, even after all the
    other clients have gone.
"""
import os
import sys
import socket
import threading
import time

sys.path.insert(0, os.path.abspath(os.path.join(os.path.dirname(__file__), "..")))

from Pyro5 import config, protocol   # noqa: E402
import Pyro5.server    # noqa: E402
import Pyro5.client    # noqa: E402


@Pyro5.server.expose
class Echo(object):
    def echo(self, value):
        return value


def run_with_timeout(func, timeout=4.0):
    box = {}

    def runner():
        try:
            box["result"] = func()
        except Exception as x:      # noqa
            box["result"] = x
    t = threading.Thread(target=runner, daemon=True)
    t.start()
    t.join(timeout)
    return (not t.is_alive()), box.get("result")


def start(servertype):
    config.SERVERTYPE = servertype
    config.POLLTIMEOUT = 0.5
    config.COMMTIMEOUT = 0.0
    daemon = Pyro5.server.Daemon(host="127.0.0.1", port=0)
    uri = daemon.register(Echo(), "echo")
    threading.Thread(target=daemon.requestLoop, daemon=True).start()
    time.sleep(0.2)
    return daemon, uri


def fresh_call(uri):
    def f():
        with Pyro5.client.Proxy(uri) as p:
            return p.echo("fresh")
    return f


def obs1():
    print("== 1. multiplex server, a 6-byte message prefix, client stays connected")
    daemon, uri = start("multiplex")
    host, port = daemon.locationStr.split(":")
    witness = Pyro5.client.Proxy(uri)
    assert witness.echo(1) == 1
    s = socket.create_connection((host, int(port)))
    s.sendall(b"PYRO" + protocol.PROTOCOL_VERSION.to_bytes(2, "big"))

    def wcall():
        witness._pyroClaimOwnership()
        return witness.echo(2)
    print("   witness call (finished, result):", run_with_timeout(wcall))
    print("   fresh client (finished, result):", run_with_timeout(fresh_call(uri)))
    return s


def obs2():
    print("== 2. thread server, pool full, one more client connects and says nothing")
    config.THREADPOOL_SIZE_MIN = 1
    config.THREADPOOL_SIZE = 2
    daemon, uri = start("thread")
    host, port = daemon.locationStr.split(":")
    a = Pyro5.client.Proxy(uri)
    b = Pyro5.client.Proxy(uri)
    assert a.echo(1) == 1 and b.echo(2) == 2          # pool is full now
    silent = socket.create_connection((host, int(port)))   # surplus client: connects, sends nothing
    time.sleep(1.0)
    a._pyroRelease()
    b._pyroRelease()                                   # both workers are free again
    time.sleep(0.5)
    pool = daemon.transportServer.pool
    print("   pool: busy=%d idle=%d" % (len(pool.busy), len(pool.idle)))
    print("   fresh client (finished, result):", run_with_timeout(fresh_call(uri)))
    return silent


if __name__ == "__main__":
    keep = [obs1(), obs2()]
    sys.stdout.flush()
    os._exit(0)
