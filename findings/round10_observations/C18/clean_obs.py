"""
Observations on the UNCHANGED tree for property C18 (see CLEAN_TREE_OBSERVATIONS.md).
Prints what it sees; exit code = number of observations that reproduced (0 = none reproduced).
"""
import os
import socket
import sys
import threading
import time

sys.path.insert(0, os.path.abspath(os.path.join(os.path.dirname(os.path.abspath(__file__)), "..")))

import Pyro5.api                                            # noqa: E402
from Pyro5 import config                                    # noqa: E402
from Pyro5.svr_threads import Pool, NoFreeWorkersError      # noqa: E402


class CountingJob(object):
    def __init__(self):
        self.runs = 0

    def __call__(self):
        self.runs += 1


def obs1_close_overwrites_handed_job():
    """process(job) immediately followed by close(): close() writes None into the job slot of the worker that was
    just given the job; if the worker has not read its slot yet, the accepted job is never run and nobody is told."""
    config.THREADPOOL_SIZE_MIN = 1
    config.THREADPOOL_SIZE = 1
    old = sys.getswitchinterval()
    lost = 0
    rounds = 20
    try:
        for _ in range(rounds):
            pool = Pool()
            job = CountingJob()
            time.sleep(0.05)                # worker is parked in job_available.wait()
            sys.setswitchinterval(5.0)      # keep the GIL from process() until close() sleeps: forces the interleaving
            pool.process(job)               # accepted: no exception
            pool.close()
            sys.setswitchinterval(old)
            time.sleep(0.05)
            if job.runs == 0:
                lost += 1
    finally:
        sys.setswitchinterval(old)
    print("obs1: %d of %d jobs that process() accepted right before close() were never executed" % (lost, rounds))
    return lost > 0


def obs2_baseexception_leaks_worker():
    """a job that ends with a BaseException that is not an Exception (SystemExit from sys.exit() in a remote method,
    for instance) kills the worker thread before notify_done: the dead worker stays in pool.busy for ever."""
    config.THREADPOOL_SIZE_MIN = 1
    config.THREADPOOL_SIZE = 1

    def exiting_job():
        raise SystemExit(0)
    pool = Pool()
    pool.process(exiting_job)
    time.sleep(0.3)
    alive = [w for w in pool.busy if w.is_alive()]
    print("obs2: after the job ended: busy=%d (alive: %d) idle=%d" % (len(pool.busy), len(alive), len(pool.idle)))
    refused = False
    try:
        pool.process(CountingJob())
    except NoFreeWorkersError as x:
        refused = True
        print("obs2: next job refused although no job is running:", x)
    pool.close()
    return refused


def obs3_silent_refused_client_blocks_accept_loop():
    """default COMMTIMEOUT (0): the refusal is sent only after the refused client's connect message has been read,
    on the accept thread. A refused client that sends nothing blocks the accept loop: everybody else waits."""
    config.reset()
    config.SERVERTYPE = "thread"
    config.THREADPOOL_SIZE_MIN = 1
    config.THREADPOOL_SIZE = 1
    config.POLLTIMEOUT = 0.5

    @Pyro5.api.expose
    class Service(object):
        def ping(self):
            return "pong"
    daemon = Pyro5.api.Daemon(host="127.0.0.1", port=0)
    uri = daemon.register(Service(), "svc")
    host, port = daemon.sock.getsockname()[:2]
    loop = threading.Thread(target=daemon.requestLoop, daemon=True)
    loop.start()
    first = Pyro5.api.Proxy(uri)
    first.ping()                                        # occupies the only worker
    silent = socket.create_connection((host, port))     # to be refused, but never sends anything
    time.sleep(0.2)
    third = Pyro5.api.Proxy(uri)
    third._pyroTimeout = 3
    t0 = time.time()
    try:
        third._pyroBind()
        seen = "connected"
    except Exception as x:
        seen = "%s: %s" % (type(x).__name__, x)
    print("obs3: third client got after %.1fs: %s" % (time.time() - t0, seen))
    stuck = "no free workers" not in seen
    silent.close()
    first._pyroRelease()
    daemon.shutdown()
    loop.join(5)
    return stuck


if __name__ == "__main__":
    n = 0
    for f in (obs1_close_overwrites_handed_job, obs2_baseexception_leaks_worker, obs3_silent_refused_client_blocks_accept_loop):
        try:
            if f():
                n += 1
                print("   -> reproduced:", f.__name__)
            else:
                print("   -> not reproduced:", f.__name__)
        finally:
            config.reset()
    sys.exit(n)
