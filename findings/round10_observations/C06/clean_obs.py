"""
Observations on the UNCHANGED tree for property C06 (decoder accepts only exactly-tiling, well-formed messages).
Run:   /venv/bin/python _seed/clean_obs.py        (observations 1, 2, 3)
       /venv/bin/python -O _seed/clean_obs.py     (adds observation 4: the tiling check is an `assert`)
Always exits 0; it only prints what it sees.
"""
import os
import struct
import sys
import zlib

sys.path.insert(0, os.path.abspath(os.path.join(os.path.dirname(os.path.abspath(__file__)), "..")))

from Pyro5 import protocol, config   # noqa: E402

config.COMPRESSION = False
HS = protocol._header_size


def header(msgtype=4, ser=1, flags=0, seq=7, datasize=0, annsize=0, corr=b"\0" * 16, reserved=0):
    return struct.pack(protocol._header_format, b"PYRO", protocol.PROTOCOL_VERSION, msgtype, ser, flags, seq,
                       datasize, annsize, corr, reserved, protocol._magic_number)


def try_decode(title, raw):
    try:
        m = protocol.ReceivingMessage(raw[:HS], raw[HS:])
        print("%-62s ACCEPTED: flags=%d annotations=%r data=%r"
              % (title, m.flags, {k: bytes(v) for k, v in m.annotations.items()}, bytes(m.data)[:30]))
        return m
    except Exception as x:
        print("%-62s refused: %s: %s" % (title, type(x).__name__, x))


# 1. trailing garbage behind the zlib stream of a compressed payload is silently dropped
body = zlib.compress(b"x" * 200) + b"GARBAGE-THAT-IS-NOT-PART-OF-THE-STREAM"
try_decode("1. compressed payload + trailing junk", header(flags=protocol.FLAGS_COMPRESSED, datasize=len(body)) + body)

# 2. the same annotation id twice: accepted, the first chunk silently disappears
anns = b"DUPL" + struct.pack("!I", 5) + b"first" + b"DUPL" + struct.pack("!I", 6) + b"second"
try_decode("2. duplicate annotation id", header(datasize=2, annsize=len(anns)) + anns + b"ok")

# 3. reserved field != 0, and a correlation id without FLAGS_CORR_ID: accepted, neither survives a re-encode
try_decode("3. reserved=0xbeef, corr id set but flag clear", header(datasize=2, corr=b"C" * 16, reserved=0xbeef) + b"ok")

# 4. last annotation chunk claims more bytes than the annotations area has: refused only by an `assert`
anns = b"OVER" + struct.pack("!I", 9) + b"abc"         # area is 11 bytes, chunk claims 8+9=17
m = try_decode("4. annotation chunk overruns the annotation area%s" % ("" if __debug__ else " (python -O)"),
               header(datasize=6, annsize=len(anns)) + anns + b"PAYLOD")
if m is not None:
    print("   -> annotation value swallowed payload bytes: %r, data=%r" % (bytes(m.annotations["OVER"]), bytes(m.data)))
