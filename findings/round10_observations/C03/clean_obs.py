"""
Clean-tree observation (NOT used as a seed): the client decides "oneway" by the bare method NAME, also for the calls it
sends to the daemon's own object (objectId=Pyro.Daemon) on behalf of the proxy: get_metadata, get_next_stream_item,
close_stream.  If the user's object happens to have a @oneway method with one of those names, the proxy's internal
stream fetch is flagged ONEWAY: the fetch returns None without reading a reply, the daemon runs the fetch in a oneway
thread, and the stream "delivers" None forever while the real items are consumed and thrown away on the server.
"""
import os
import sys
import time
import threading

sys.path.insert(0, os.path.abspath(os.path.join(os.path.dirname(os.path.abspath(__file__)), "..")))

import Pyro5.api   # noqa: E402

produced = []


@Pyro5.api.expose
class Thing(object):
    def numbers(self):
        for i in range(3):
            produced.append(i)
            yield i

    @Pyro5.api.oneway
    def get_next_stream_item(self, what):     # an innocent user method that shares its name with a daemon method
        pass


daemon = Pyro5.api.Daemon(host="127.0.0.1", port=0)
uri = daemon.register(Thing(), "thing")
threading.Thread(target=daemon.requestLoop, daemon=True).start()
try:
    with Pyro5.api.Proxy(uri) as p:
        it = p.numbers()
        seen = []
        for _ in range(6):
            try:
                seen.append(next(it))
            except StopIteration:
                break
        time.sleep(0.5)
        print("client saw          :", seen)
        print("server side produced:", produced)
        if seen != [0, 1, 2]:
            print("OBSERVATION: stream fetches returned values that no invocation produced (expected [0, 1, 2])")
finally:
    daemon.shutdown()
