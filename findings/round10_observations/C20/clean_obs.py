"""Clean-tree observations around the HTTP gateway (property C20). Prints what happens; exits 0."""
import os, sys, io, threading
sys.path.insert(0, os.path.join(os.path.dirname(os.path.abspath(__file__)), ".."))
import Pyro5.core, Pyro5.server, Pyro5.nameserver
from Pyro5 import config
from Pyro5.utils import httpgateway as gw
from wsgiref.util import setup_testing_defaults

calls = []


@Pyro5.server.expose
class Thing(object):
    def echo(self, **kwargs):
        calls.append(kwargs)
        return kwargs


def request(path, query="", headers=None):
    environ = {"PATH_INFO": path, "REQUEST_METHOD": "GET", "QUERY_STRING": query, "wsgi.input": io.BytesIO(b"")}
    setup_testing_defaults(environ)
    environ["wsgi.errors"] = io.StringIO()
    environ.update(headers or {})
    result = {}
    try:
        body = b"".join(gw.pyro_app(environ, lambda s, h, e=None: result.update(status=s)))
    except Exception as x:
        return "EXCEPTION ESCAPED THE WSGI APP", repr(x)
    return result["status"], body[:160]


nsd = Pyro5.server.Daemon(host="127.0.0.1", port=0)
ns = Pyro5.nameserver.NameServer()
nsuri = nsd.register(ns, Pyro5.core.NAMESERVER_NAME)
d = Pyro5.server.Daemon(host="127.0.0.1", port=0)
ns.register("http.thing", d.register(Thing(), "thing"))
for x in (nsd, d):
    threading.Thread(target=x.requestLoop, daemon=True).start()
config.NS_HOST, config.NS_PORT = "127.0.0.1", nsuri.port
gw.pyro_app.ns_regex = r"http\."

gw.pyro_app.gateway_key = b"sesame"
print("1. key configured, $key given twice      :", request("/pyro/http.thing/echo", "$key=sesame&$key=sesame&a=1"))
gw.pyro_app.gateway_key = None
print("2. query parameter named __class__       :", request("/pyro/http.thing/echo", "__class__=whatever&a=1"), "calls:", calls)
print("3. query parameter named self            :", request("/pyro/http.thing/echo", "self=1"), "calls:", calls)
print("4. sanity                                :", request("/pyro/http.thing/echo", "a=1"), "calls:", calls)
for x in (d, nsd):
    x.shutdown()
