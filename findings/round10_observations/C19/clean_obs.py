"""
Observations on the UNCHANGED tree that already go against property C19 (none of them is used as a seed).
Prints one block per observation; always exits 0.  Loopback only.
"""
import os
import sys

sys.path.insert(0, os.path.abspath(os.path.join(os.path.dirname(os.path.abspath(__file__)), "..")))
sys.stdout.reconfigure(errors="backslashreplace")

from Pyro5 import config, core, client, serializers, server, nameserver   # noqa: E402
from Pyro5.core import URI   # noqa: E402


def show(title):
    print("\n--- " + title)


show("1. PYROMETA uris (and proxies holding one) are unhashable: 'equal uris have equal hashes' cannot even be asked")
u1, u2 = URI("PYROMETA:a,b"), URI("PYROMETA:b,a")
print("   equal:", u1 == u2)
for what in (u1, client.Proxy("PYROMETA:a,b")):
    try:
        print("   hash:", hash(what))
    except TypeError as x:
        print("   hash(%s) -> TypeError: %s" % (type(what).__name__, x))

show("2. a PYROMETA uri through json / msgpack arrives with a *list* of tags and is unequal to what was sent")
for name in ("json", "msgpack"):
    ser = serializers.serializers.get(name)
    if ser:
        got = ser.loads(ser.dumps(u1))
        print("   %-8s sent %r  got %r  equal=%s" % (name, u1.__getstate__(), got.__getstate__(), got == u1))

show("3. uri / proxy subclasses (e.g. the Pyro4 compatibility layer's URI and Proxy) cannot pass any serializer")
from Pyro5.compatibility import Pyro4   # noqa: E402
for obj in (Pyro4.URI("PYRO:o@h:5"), Pyro4.Proxy("PYRO:o@h:5")):
    for name, ser in serializers.serializers.items():
        try:
            ser.loads(ser.dumps(obj))
            print("   %s via %s ok" % (type(obj).__name__, name))
        except Exception as x:
            print("   %s via %-8s -> %s: %s" % (type(obj).__name__, name, type(x).__name__, x))

show("4. Daemon.register/uriFor with an '@' in the object id: the uri designates another object and host")
d = server.Daemon(host="localhost", port=0)


@server.expose
class Thing(object):
    def ping(self):
        return "pong"


uri = d.register(Thing(), "user@domain")
print("   registered id 'user@domain'  ->  uri %s   object=%r host=%r" % (uri, uri.object, uri.host))
d.close()

show("5. resolve() drops the unix-socket location of a PYRONAME / PYROMETA uri (locate_ns only gets host and port)")
calls = []
orig = core.locate_ns
core.locate_ns = lambda *a, **kw: calls.append((a, kw)) or (_ for _ in ()).throw(RuntimeError("stop here"))
try:
    core.resolve("PYRONAME:thing@./u:/tmp/private-ns.sock")
except RuntimeError:
    pass
finally:
    core.locate_ns = orig
print("   resolve('PYRONAME:thing@./u:/tmp/private-ns.sock') calls locate_ns%r -> default/broadcast name server" % (calls[0][0],))

show("6. broadcast lookup reads at most 100 bytes: a long name server host name yields a silently different uri")
config.NS_HOST = "ns.invalid"
config.BROADCAST_ADDRS = ["127.0.0.1"]
longhost = "nameserver." + "department-of-distributed-systems." * 2 + "example.org"      # 91 chars, legal
ns_uri = URI("PYRO:%s@%s:9090" % (core.NAMESERVER_NAME, longhost))
bc = nameserver.BroadcastServer(ns_uri, bchost="127.0.0.1", bcport=0)
t = bc.runInThread()
try:
    p = core.locate_ns(host="", port=bc.getPort(), broadcast=True)
    print("   responder: %s\n   client   : %s   equal=%s" % (ns_uri, p._pyroUri, p._pyroUri == ns_uri))
except Exception as x:
    print("   responder: %s\n   client   : %s: %s" % (ns_uri, type(x).__name__, x))
finally:
    bc.close()
    t.join(5)
shorter = "nameserver." + "d" * 52 + ".example.org"          # 75 chars: the uri text is 101 characters long
ns_uri = URI("PYRO:%s@%s:9090" % (core.NAMESERVER_NAME, shorter))
print("   (text length %d)" % len(str(ns_uri)))
bc = nameserver.BroadcastServer(ns_uri, bchost="127.0.0.1", bcport=0)
t = bc.runInThread()
try:
    p = core.locate_ns(host="", port=bc.getPort(), broadcast=True)
    print("   responder: %s\n   client   : %s   equal=%s" % (ns_uri, p._pyroUri, p._pyroUri == ns_uri))
except Exception as x:
    print("   responder: %s\n   client   : %s: %s" % (ns_uri, type(x).__name__, x))
finally:
    bc.close()
    t.join(5)

show("7. broadcast responder: a host name outside iso-8859-1 makes processRequest raise (kills the responder thread)")
bc = nameserver.BroadcastServer(URI("PYRO:%s@h\u20acst:9090" % core.NAMESERVER_NAME), bchost="127.0.0.1", bcport=0)
import socket   # noqa: E402
s = socket.socket(socket.AF_INET, socket.SOCK_DGRAM)
s.sendto(b"GET_NSURI", ("127.0.0.1", bc.getPort()))
try:
    bc.processRequest()
    print("   answered")
except Exception as x:
    print("   processRequest -> %s: %s" % (type(x).__name__, x))
bc.close()
s.close()

show("8. bracketed-ipv6 locations are matched with an unanchored re.match: text after the address is ignored")
for text in ("PYRONAME:n@[::1]:+80", "PYRONAME:n@[::1]:80x", "PYRONAME:n@[::1]junk", "PYRO:o@[::1]:5junk"):
    try:
        print("   %-24s -> %s" % (text, URI(text)))
    except Exception as x:
        print("   %-24s -> rejected (%s)" % (text, x))
print("   (compare: 'PYRONAME:n@host:+80' -> %s, 'PYRONAME:n@host:80x' is rejected)" % URI("PYRONAME:n@host:+80"))

show("9. NAT with an ipv6 nathost: the nat location has no brackets, so no uri can be made for it")
try:
    d = server.Daemon(host="localhost", port=0, nathost="::1", natport=5555)
    print("   natLocationStr = %r" % d.natLocationStr)
    try:
        print("   uriFor ->", d.uriFor("obj"))
    except Exception as x:
        print("   uriFor('obj') -> %s: %s" % (type(x).__name__, x))
    d.close()
except Exception as x:
    print("   Daemon(...) -> %s: %s" % (type(x).__name__, x))

show("10. copy-constructed PYROMETA uris share one tag set")
a = URI("PYROMETA:x,y")
b = URI(a)
b.object.add("z")
print("   after b=URI(a); b.object.add('z'):  a = %s" % a)
