"""
Observations on the UNCHANGED tree that touch property C10 (remote iterators).
Prints what it sees; exits 0 always. Run:  /venv/bin/python _seed/clean_obs.py
"""
import os
import sys
import time
import socket
import threading

sys.path.insert(0, os.path.abspath(os.path.join(os.path.dirname(os.path.abspath(__file__)), "..")))

import Pyro5.server
import Pyro5.client
import Pyro5.errors
from Pyro5 import config


@Pyro5.server.expose
class Source(object):
    def __init__(self):
        self.items = ["a", "b", "c", "d"]

    def numbers(self, n):
        for i in range(n):
            yield i

    def slow_numbers(self, n, delay):
        for i in range(n):
            if i == 1:
                time.sleep(delay)
            yield i

    def ping(self):
        return "pong"

    def __iter__(self):
        # remote __iter__ : a generator that fails with an AttributeError midway
        yield self.items[0]
        yield self.items[1]
        raise AttributeError("bug inside the server side generator")

    def __getitem__(self, index):
        return self.items[index]


def start(daemon):
    t = threading.Thread(target=daemon.requestLoop, daemon=True)
    t.start()
    return t


def obs1_iter_fallback():
    print("--- 1. Proxy.__iter__ (client.py:189-198): AttributeError raised by the remote generator midway")
    daemon = Pyro5.server.Daemon(port=0)
    uri = daemon.register(Source(), "source")
    start(daemon)
    with Pyro5.client.Proxy(uri) as p:
        got = []
        try:
            for x in p:
                got.append(x)
            print("   for-loop over the proxy ended normally with items", got)
        except Exception as x:
            print("   for-loop raised", type(x).__name__, x, "after items", got)
        print("   source generator yields a, b and then raises AttributeError;")
        print("   -> the client swallowed it, fell back to index based iteration and REPEATED a, b:", got)
    daemon.shutdown()


def obs2_existing_connection():
    print("--- 2. svr_existingconn: close() of a stream after another call on the proxy does not reach the server")
    s1, s2 = socket.socketpair()
    daemon = Pyro5.server.Daemon(connected_socket=s1)
    daemon.register(Source(), "source")
    start(daemon)
    p = Pyro5.client.Proxy("source", connected_socket=s2)
    it = p.numbers(5)
    next(it)
    p.ping()          # sequence numbers diverge -> close() goes via a temporary copy of the proxy, which cannot connect
    it.close()
    p.ping()
    time.sleep(0.3)
    print("   stream table size after it.close():", len(daemon.streaming_responses), "(expected 0)")
    p._pyroRelease()
    s2.close()
    time.sleep(0.3)
    print("   stream table size after the connection ended (this transport never calls _clientDisconnect):",
          len(daemon.streaming_responses))
    daemon.close()
    s1.close()


def obs3_linger_switched_off():
    print("--- 3. linger set to 0 at run time while a stream lingers: never cleaned up (server.py:560 guard)")
    config.POLLTIMEOUT = 0.2
    config.ITER_STREAM_LINGER = 0.3
    daemon = Pyro5.server.Daemon(port=0)
    uri = daemon.register(Source(), "source")
    start(daemon)
    p = Pyro5.client.Proxy(uri)
    it = p.numbers(5)
    next(it)
    p._pyroRelease()
    time.sleep(0.1)
    config.ITER_STREAM_LINGER = 0
    time.sleep(1.2)
    print("   table size 1.2 s later:", len(daemon.streaming_responses))
    p._pyroReconnect(tries=2)
    try:
        print("   client came back and received item:", next(it))
    except Exception as x:
        print("   client came back and got", type(x).__name__, x)
    p._pyroRelease()
    daemon.shutdown()
    config.ITER_STREAM_LINGER = 30.0
    config.POLLTIMEOUT = 2.0


def obs4_timeout_loses_item():
    print("--- 4. client timeout while the server computes an item: that item is lost for good")
    daemon = Pyro5.server.Daemon(port=0)
    uri = daemon.register(Source(), "source")
    start(daemon)
    p = Pyro5.client.Proxy(uri)
    p._pyroTimeout = 0.3
    it = p.slow_numbers(4, 0.8)
    got = [next(it)]
    try:
        got.append(next(it))
    except Pyro5.errors.TimeoutError as x:
        print("   next() ->", type(x).__name__, x)
    time.sleep(1.0)
    p._pyroReconnect(tries=2)
    for x in it:
        got.append(x)
    print("   source sequence [0, 1, 2, 3]; received after reconnecting within linger:", got)
    p._pyroRelease()
    daemon.shutdown()


class HookedDaemon(Pyro5.server.Daemon):
    def __init__(self, *a, **kw):
        super().__init__(*a, **kw)
        self.hold = threading.Event()
        self.entered = threading.Event()
        self.release = threading.Event()

    def clientDisconnect(self, conn):
        if self.hold.is_set():
            self.hold.clear()
            self.entered.set()
            self.release.wait(20)


def obs5_late_disconnect_marks_live_stream_lingering():
    print("--- 5. disconnect of the OLD connection processed after the client already resumed on a NEW one:")
    print("       the stream is marked 'lingering' although its client is connected; if the client is slower")
    print("       than the linger period, the stream is dropped under a connected client")
    config.POLLTIMEOUT = 0.2
    config.ITER_STREAM_LINGER = 0.5
    daemon = HookedDaemon(port=0)
    uri = daemon.register(Source(), "source")
    start(daemon)
    helper = Pyro5.client.Proxy(uri)
    helper.ping()
    p = Pyro5.client.Proxy(uri)
    it = p.numbers(6)
    got = [next(it)]
    daemon.hold.set()
    helper._pyroRelease()
    daemon.entered.wait(5)
    p._pyroRelease()
    time.sleep(0.2)
    p._pyroReconnect(tries=2)
    got.append(next(it))        # resumed on the new connection; table entry still names the old connection
    daemon.release.set()        # now the old disconnect is processed: entry becomes (None, ts, now, stream)
    time.sleep(1.5)             # a slow consumer, connected all the time
    try:
        got.append(next(it))
        print("   slow consumer went on fine:", got)
    except Exception as x:
        print("   connected client, 1.5 s between two items (linger 0.5): next() ->", type(x).__name__, x, "after", got)
    p._pyroRelease()
    daemon.shutdown()
    config.ITER_STREAM_LINGER = 30.0
    config.POLLTIMEOUT = 2.0


if __name__ == "__main__":
    obs1_iter_fallback()
    obs2_existing_connection()
    obs3_linger_switched_off()
    obs4_timeout_loses_item()
    obs5_late_disconnect_marks_live_stream_lingering()
