"""
Clean-tree observations for C01 (UNCHANGED tree). Prints each observation; always exits 0.
Run:  /venv/bin/python _seed/clean_obs.py
"""
import os
import sys

sys.path.insert(0, os.path.abspath(os.path.join(os.path.dirname(os.path.abspath(__file__)), "..")))

from Pyro5 import serializers, client, protocol   # noqa: E402


def attempt(label, fn):
    try:
        print("%-62s -> %r" % (label, fn()))
    except Exception as x:
        print("%-62s -> RAISES %s: %s" % (label, type(x).__name__, str(x)[:90]))


sp = serializers.serializers["serpent"]
mp = serializers.serializers["msgpack"]
js = serializers.serializers["json"]
ma = serializers.serializers["marshal"]

print("O1 serpent: float nan inside a set, or as a dict key, cannot be received (nan is sent as a class-dict, which is unhashable)")
attempt("serpent loads(dumps({nan}))", lambda: sp.loads(sp.dumps({float("nan")})))
attempt("serpent loads(dumps({nan: 1}))", lambda: sp.loads(sp.dumps({float("nan"): 1})))
attempt("serpent loads(dumps((nan,)))   (control, fine)", lambda: sp.loads(sp.dumps((float("nan"),))))
attempt("marshal loads(dumps({nan}))    (control, fine)", lambda: ma.loads(ma.dumps({float("nan")})))

print("O2 msgpack: dict keys that are not str/bytes are packed by the sender but refused by the receiver (strict_map_key default)")
attempt("msgpack loads(dumps({1: 2}))", lambda: mp.loads(mp.dumps({1: 2})))
attempt("msgpack loads(dumps({None: 1}))", lambda: mp.loads(mp.dumps({None: 1})))
attempt("msgpack loadsCall(dumpsCall(.., ({1: 2},), {}))", lambda: mp.loadsCall(mp.dumpsCall("o", "m", ({1: 2},), {})))

print("O3 json: distinct keys collapse silently (int key and its str spelling), one value is lost")
attempt("json loads(dumps({1: 'a', '1': 'b'}))", lambda: js.loads(js.dumps({1: "a", "1": "b"})))

print("O4 integers above 4300 decimal digits: only marshal carries them (interpreter int->str limit hits serpent/json/msgpack)")
big = 10 ** 5000
for name, s in (("serpent", sp), ("json", js), ("msgpack", mp), ("marshal", ma)):
    attempt("%s loads(dumps(10**5000)) == 10**5000" % name, lambda s=s: s.loads(s.dumps(big)) == big)

print("O5 SerializedBlob.deserialized() under json returns the string 'params' instead of the arguments")
for name, s in (("serpent", sp), ("msgpack", mp), ("marshal", ma), ("json", js)):
    d = s.dumpsCall("obj", "meth", ([1, 2, 3],), {})
    m = protocol.SendingMessage(protocol.MSG_INVOKE, 0, 1, s.serializer_id, d)
    attempt("%s blob.deserialized()" % name, lambda m=m: client.SerializedBlob("info", m, is_blob=True).deserialized())
