"""
Observations on the UNCHANGED tree against property C06 ("the decoder accepts a byte string only if it is a
well-formed message whose length fields and annotation chunks tile the bytes exactly, so whatever it accepts
re-encodes to an equivalent message"). Prints what it sees; always exits 0.
"""
import os
import sys
import struct
import subprocess
import zlib

ROOT = os.path.abspath(os.path.join(os.path.dirname(os.path.abspath(__file__)), ".."))
sys.path.insert(0, ROOT)

from Pyro5 import config, protocol   # noqa: E402

HS = protocol._header_size


def header(msgtype=5, ser=1, flags=0, seq=1, datalen=0, annlen=0, corr=b"\0" * 16, reserved=0):
    return struct.pack(protocol._header_format, b"PYRO", protocol.PROTOCOL_VERSION, msgtype, ser, flags, seq,
                       datalen, annlen, corr, reserved, protocol._magic_number)


def decode(wire):
    return protocol.ReceivingMessage(wire[:HS], wire[HS:])


def reencode(msg):
    return protocol.SendingMessage(msg.type, msg.flags, msg.seq, msg.serializer_id, bytes(msg.data),
                                   {k: bytes(v) for k, v in msg.annotations.items()}).data


def obs1():
    print("1. trailing garbage after the zlib stream of a compressed payload is accepted and silently dropped")
    z = zlib.compress(b"A" * 500, 4) + b"GARBAGE-THAT-IS-NOT-PART-OF-THE-STREAM"
    wire = header(flags=protocol.FLAGS_COMPRESSED, datalen=len(z)) + z
    try:
        m = decode(wire)
        print("   accepted: data=%d x %r, wire had %d data bytes of which %d are not part of the deflate stream"
              % (len(m.data), bytes(m.data[:1]), len(z), len(b"GARBAGE-THAT-IS-NOT-PART-OF-THE-STREAM")))
    except Exception as x:
        print("   rejected:", type(x).__name__, x)


def obs2():
    print("2. two annotation chunks with the same id are accepted; the first one vanishes, so re-encoding is not equivalent")
    ann = struct.pack("!4sI", b"DUPL", 3) + b"one" + struct.pack("!4sI", b"DUPL", 3) + b"two"
    wire = header(annlen=len(ann), datalen=4) + ann + b"data"
    try:
        m = decode(wire)
        again = reencode(m)
        print("   accepted: annotations=%r; original wire %d bytes, re-encoded %d bytes"
              % ({k: bytes(v) for k, v in m.annotations.items()}, len(wire), len(again)))
    except Exception as x:
        print("   rejected:", type(x).__name__, x)


def obs3():
    print("3. the exact-tiling check of the annotation walk is an 'assert': malformed chunk lengths raise AssertionError")
    print("   (not ProtocolError) and under 'python -O' they are ACCEPTED")
    code = r'''
import sys, struct
sys.path.insert(0, %r)
from Pyro5 import protocol
def header(datalen, annlen):
    return struct.pack(protocol._header_format, b"PYRO", protocol.PROTOCOL_VERSION, 5, 1, 0, 1, datalen, annlen, b"\0"*16, 0, protocol._magic_number)
cases = {
  "chunk length runs past the annotation area into the data": (struct.pack("!4sI", b"OVER", 6) + b"ab", b"cdefgh"),
  "annotation area (4 bytes) too short for a chunk header": (b"TINY", b"\0\0\0\0rest"),
}
for name, (ann, data) in cases.items():
    wire = header(len(data), len(ann)) + ann + data
    try:
        m = protocol.ReceivingMessage(wire[:40], wire[40:])
        print("   %%s: ACCEPTED annotations=%%r data=%%r" %% (name, {k: bytes(v) for k, v in m.annotations.items()}, bytes(m.data)))
    except BaseException as x:
        print("   %%s: %%s" %% (name, type(x).__name__))
''' % ROOT
    for flag in ([], ["-O"]):
        print("  python %s" % (" ".join(flag) or "(normal)"))
        out = subprocess.run([sys.executable] + flag + ["-c", code], capture_output=True, text=True)
        sys.stdout.write(out.stdout + out.stderr)


def obs4():
    print("4. header fields that no sender can produce are accepted: reserved != 0, correlation id bytes without FLAGS_CORR_ID")
    wire = header(reserved=0xBEEF, corr=b"\x11" * 16, datalen=1) + b"x"
    try:
        m = decode(wire)
        again = reencode(m)
        print("   accepted: corr_id=%r flags=%d ; re-encoded header equal to original: %s"
              % (m.corr_id, m.flags, again[:HS] == wire[:HS]))
    except Exception as x:
        print("   rejected:", type(x).__name__, x)


def obs5():
    print("5. decompressed size is not bounded by MAX_MESSAGE_SIZE (only the declared wire size is)")
    old = config.MAX_MESSAGE_SIZE
    config.MAX_MESSAGE_SIZE = 10000
    try:
        z = zlib.compress(b"\0" * 5000000, 9)
        wire = header(flags=protocol.FLAGS_COMPRESSED, datalen=len(z)) + z
        m = decode(wire)
        print("   MAX_MESSAGE_SIZE=10000, wire data %d bytes, accepted and expanded to %d bytes" % (len(z), len(m.data)))
    except Exception as x:
        print("   rejected:", type(x).__name__, x)
    finally:
        config.MAX_MESSAGE_SIZE = old


if __name__ == "__main__":
    config.COMPRESSION = False
    for f in (obs1, obs2, obs3, obs4, obs5):
        f()
    sys.exit(0)
