"""
Observations on the UNCHANGED tree for C09 (not used as seeds). Always exits 0; prints what it sees.

 1. 'percall' + batch proxy: all calls of one batch are served by ONE instance.
 2. Daemon(connected_socket=...): the session instance of the connection is not released when
    the connection ends (the server just forgets its SocketConnection, nobody calls close() on it,
    and the loop thread's current_context.client keeps it alive).
"""
import gc
import os
import socket
import sys
import threading
import time
import weakref

sys.path.insert(0, os.path.abspath(os.path.join(os.path.dirname(os.path.abspath(__file__)), "..")))

from Pyro5.api import expose, behavior, Daemon, Proxy, BatchProxy, config   # noqa: E402

config.COMMTIMEOUT = 10.0
made = []
alive = []


@behavior(instance_mode="percall")
@expose
class PerCall(object):
    def __init__(self):
        made.append(id(self))

    def ping(self):
        return id(self)


@expose
class Session(object):
    def __init__(self):
        alive.append(weakref.ref(self))

    def ping(self):
        return "pong"


def obs_batch():
    d = Daemon(host="localhost", port=0)
    uri = d.register(PerCall, "pc")
    t = threading.Thread(target=d.requestLoop, daemon=True)
    t.start()
    try:
        with Proxy(uri) as p:
            b = BatchProxy(p)
            b.ping(); b.ping(); b.ping()
            ids = list(b())
        print("1. percall, batch of 3 calls: instances constructed=%d, distinct serving instances=%d" % (len(made), len(set(ids))))
        if len(made) != 3:
            print("   -> OBSERVATION: the calls in one batch do not each get a fresh instance")
    finally:
        d.shutdown(); t.join(5); d.close()


def obs_existing_connection():
    # the request loop runs in THIS thread (as in a program whose main thread serves), the client in a helper
    s_server, s_client = socket.socketpair()
    d = Daemon(connected_socket=s_server)
    d.register(Session, "sess")

    def client():
        p = Proxy("sess", connected_socket=s_client)
        print("2. existing-connection daemon: call ->", p.ping())
        p._pyroRelease()
        s_client.close()
    t = threading.Thread(target=client, daemon=True)
    t.start()
    d.requestLoop()      # returns once the peer has gone
    t.join(5)
    gc.collect()
    still = [r for r in alive if r() is not None]
    print("   connection ended, request loop returned; session instances still alive=%d" % len(still))
    if still:
        from Pyro5.api import current_context
        print("   -> OBSERVATION: session instance not released although its connection is gone "
              "(current_context.client of the loop thread still holds the connection: %r, its table: %r)"
              % (current_context.client, current_context.client.pyroInstances if current_context.client else None))
    d.close()
    s_server.close()


if __name__ == "__main__":
    obs_batch()
    try:
        obs_existing_connection()
    except Exception as x:
        print("2. could not run existing-connection observation:", repr(x))
    sys.exit(0)
