"""
Observations on the UNCHANGED tree that already contradict C13 (not used as seeds).
Prints what it sees; exit status 1 if at least one of the observations reproduced, 0 if none did.
"""
import gc
import os
import socket
import sys
import threading
import time

sys.path.insert(0, os.path.abspath(os.path.join(os.path.dirname(os.path.abspath(__file__)), "..")))

import Pyro5.client      # noqa: E402
import Pyro5.server      # noqa: E402
from Pyro5 import config     # noqa: E402
from Pyro5.callcontext import current_context    # noqa: E402

closed = []
keep = []
reproduced = []


class Res(object):
    def __init__(self, name):
        self.name = name

    def close(self):
        closed.append(self.name)


class SelfUntrackingRes(Res):
    """a resource that deregisters itself when closed (so that free() and disconnect share one code path)"""
    def close(self):
        closed.append(self.name)
        current_context.untrack_resource(self)


class SameNameRes(Res):
    """value-like handle: two handles with the same name compare equal"""
    def __eq__(self, other):
        return isinstance(other, SameNameRes) and other.name == self.name

    def __hash__(self):
        return hash(self.name)


@Pyro5.server.expose
class Svc(object):
    def own(self, name):
        self.mine = Res(name)           # only the session instance refers to it
        current_context.track_resource(self.mine)

    def selfuntracking(self, name):
        r = SelfUntrackingRes(name)
        keep.append(r)
        current_context.track_resource(r)

    def samename(self, name):
        r = SameNameRes(name)
        keep.append(r)
        current_context.track_resource(r)


class HookDaemon(Pyro5.server.Daemon):
    hooks = 0

    def clientDisconnect(self, conn):
        HookDaemon.hooks += 1


def run(servertype):
    config.SERVERTYPE = servertype
    d = HookDaemon(host="127.0.0.1", port=0)
    uri = d.register(Svc, "svc")
    t = threading.Thread(target=d.requestLoop, daemon=True)
    t.start()
    time.sleep(0.1)

    # O1
    del closed[:]
    with Pyro5.client.Proxy(uri) as p:
        p.own("owned")
    time.sleep(0.3)
    gc.collect()
    print("[%s] O1 resource referenced only by its session instance; close() calls after disconnect: %r" % (servertype, closed))
    if closed != ["owned"]:
        reproduced.append("O1/" + servertype)

    # O3
    del closed[:]
    with Pyro5.client.Proxy(uri) as p:
        p.samename("h")
        p.samename("h")
    time.sleep(0.3)
    print("[%s] O3 two distinct but equal resources tracked; close() calls after disconnect: %r" % (servertype, closed))
    if len(closed) != 2:
        reproduced.append("O3/" + servertype)

    # O2
    del closed[:]
    with Pyro5.client.Proxy(uri) as p:
        for i in range(5):
            p.selfuntracking("s%d" % i)
    time.sleep(0.5)
    print("[%s] O2 five resources whose close() untracks itself; close() calls after disconnect: %r; request loop alive: %s"
          % (servertype, sorted(closed), t.is_alive()))
    if len(closed) != 5 or not t.is_alive():
        reproduced.append("O2/" + servertype)
    try:
        d.shutdown()
    except Exception as x:
        print("   (daemon.shutdown() afterwards: %s: %s)" % (type(x).__name__, x))


def existing_connection():
    # O4 (outside the stated scope of C13: the single-connection server of Daemon(connected_socket=...))
    config.SERVERTYPE = "thread"
    s1, s2 = socket.socketpair()
    HookDaemon.hooks = 0
    d = HookDaemon(connected_socket=s1)
    d.register(Svc, "svc")
    t = threading.Thread(target=d.requestLoop, daemon=True)
    t.start()
    del closed[:]
    p = Pyro5.client.Proxy("svc", connected_socket=s2)
    p.samename("x")
    s2.shutdown(socket.SHUT_RDWR)
    s2.close()
    t.join(3)
    time.sleep(0.2)
    gc.collect()
    print("[existing-connection server] O4 after the peer closed: hook calls=%d, close() calls=%r, loop alive=%s"
          % (HookDaemon.hooks, closed, t.is_alive()))
    if HookDaemon.hooks != 1:
        reproduced.append("O4")


if __name__ == "__main__":
    config.POLLTIMEOUT = 0.2
    for st in ("thread", "multiplex"):
        run(st)
    try:
        existing_connection()
    except Exception as x:
        print("O4 could not be run: %s: %s" % (type(x).__name__, x))
    print()
    print("reproduced:", reproduced or "nothing")
    sys.exit(1 if reproduced else 0)
