"""
Clean-tree observations for C20 (UNCHANGED tree). Prints what happens; exits 0 always.

 1. gateway key configured + the $key query parameter given twice: the request is neither refused with
    403/404/405 nor answered at all - an AttributeError escapes from pyro_app (a WSGI server turns that into a
    bare 500 / dropped response). No Pyro traffic is caused.
 2. the gateway caches ONE name server proxy in a module global; a Pyro proxy is owned by the thread that
    created it. Under a multi-threaded WSGI server every request handled by another thread is answered with
    500 "the calling thread is not the owner of this proxy" - authorised requests are not forwarded at all.
"""
import io
import os
import sys
import threading
from wsgiref.util import setup_testing_defaults

sys.path.insert(0, os.path.abspath(os.path.join(os.path.dirname(os.path.abspath(__file__)), "..")))

import Pyro5.core                       # noqa: E402
import Pyro5.server                     # noqa: E402
import Pyro5.nameserver                 # noqa: E402
import Pyro5.utils.httpgateway as gw    # noqa: E402
from Pyro5 import config                # noqa: E402

calls = []


@Pyro5.server.expose
class Thing(object):
    def hello(self):
        calls.append("hello")
        return "hi"


def wsgi_request(path, query="", headers=None):
    result = {}

    def start_response(status, response_headers):
        result["status"] = status

    environ = {"PATH_INFO": path, "REQUEST_METHOD": "GET", "QUERY_STRING": query,
               "CONTENT_LENGTH": 0, "wsgi.input": io.BytesIO(b"")}
    setup_testing_defaults(environ)
    environ["wsgi.errors"] = io.StringIO()
    environ.update(headers or {})
    body = b"".join(gw.pyro_app(environ, start_response))
    return result["status"], body


def main():
    config.SERVERTYPE = "thread"
    nsd = Pyro5.nameserver.NameServerDaemon(host="127.0.0.1", port=0)
    d = Pyro5.server.Daemon(host="127.0.0.1", port=0)
    nsd.nameserver.register("http.thing", d.register(Thing(), "thing"))
    for x in (nsd, d):
        threading.Thread(target=x.requestLoop, daemon=True).start()
    config.NS_HOST = "127.0.0.1"
    config.NS_PORT = nsd.uriFor(nsd.nameserver).port
    gw._nameserver = None
    gw.pyro_app.comm_timeout = 10.0
    gw.pyro_app.ns_regex = r"http\."

    # observation 1
    gw.pyro_app.gateway_key = b"secret"
    try:
        status, body = wsgi_request("/pyro/http.thing/hello", "$key=wrong&$key=secret")
        print("obs 1: repeated $key ->", status, body)
    except Exception as x:
        print("obs 1: repeated $key -> pyro_app raised %s: %s (no 403; calls=%r)" % (type(x).__name__, x, calls))

    # observation 2
    gw.pyro_app.gateway_key = None
    print("obs 2: request on thread that made the first request ->", wsgi_request("/pyro/http.thing/hello"))
    out = []
    t = threading.Thread(target=lambda: out.append(wsgi_request("/pyro/http.thing/hello")))
    t.start()
    t.join()
    print("obs 2: same request handled by another thread        ->", out[0][0], out[0][1][:160])
    print("obs 2: invocations of the object:", calls)
    nsd.shutdown()
    d.shutdown()
    return 0


if __name__ == "__main__":
    rc = main()
    sys.stdout.flush()
    os._exit(rc)
