"""
Observations on the UNCHANGED tree that touch property C12 (not used as seeds).
Prints what it sees; exits 0 always (exit code is not a verdict).

 obs1: a server method that makes a nested Pyro call: the annotations of the NESTED reply
       (set by another method, possibly on another server, for another "client") are sent with
       the OUTER reply, and the outer method's own annotations set before the nested call are lost.
 obs2: client side: a call with a SerializedBlob argument writes the "BLBI" entry into the
       thread's current_context.annotations itself; it is then sent with every later call of that
       thread, to any server, and shows up in the request annotations those methods read.
 obs3: Daemon.validateHandshake() of a NEW connection runs with the context (client, peer address,
       request annotations, seq) of the previous request handled by that thread (other client).
"""
import os
import sys
import threading

sys.path.insert(0, os.path.abspath(os.path.join(os.path.dirname(os.path.abspath(__file__)), "..")))

from Pyro5 import config          # noqa: E402
from Pyro5.api import Daemon, Proxy, expose, current_context, SerializedBlob   # noqa: E402


def b(d):
    return {k: bytes(v) for k, v in d.items()}


@expose
class Inner(object):
    def work(self):
        current_context.response_annotations["INNR"] = b"meant for the caller of Inner.work only"
        return 1


@expose
class Outer(object):
    inner_uri = None

    def work(self):
        current_context.response_annotations["OUTR"] = b"set by Outer.work before the nested call"
        with Proxy(Outer.inner_uri) as p:
            p.work()
        return 2

    def blob(self, blob):
        return "blob:%s" % (blob.info,)

    def annotations_seen(self):
        return sorted(current_context.annotations)


class SpyDaemon(Daemon):
    seen_in_handshake = []

    def validateHandshake(self, conn, data):
        ctx = current_context
        SpyDaemon.seen_in_handshake.append({
            "new connection peer": conn.sock.getpeername(),
            "context.client is the new connection": ctx.client is conn,
            "context.client_sock_addr": ctx.client_sock_addr,
            "context.annotations": b(ctx.annotations),
            "context.seq": ctx.seq,
        })
        return "hello"


def main():
    config.SERVERTYPE = "multiplex"
    d1 = SpyDaemon(host="127.0.0.1", port=0)
    d2 = Daemon(host="127.0.0.1", port=0)
    outer_uri = d1.register(Outer, "outer")
    Outer.inner_uri = d2.register(Inner, "inner")
    threads = [threading.Thread(target=d.requestLoop, daemon=True) for d in (d1, d2)]
    for t in threads:
        t.start()
    try:
        # obs1
        current_context.annotations = {}
        with Proxy(outer_uri) as p:
            p.work()
            print("obs1: annotations on the reply of Outer.work:", b(current_context.response_annotations))
            print("      (INNR belongs to the nested call's reply; OUTR, set by Outer.work itself, is gone)")
        # obs2
        current_context.annotations = {"MINE": b"x"}
        with Proxy(outer_uri) as p:
            p.blob(SerializedBlob("blob-info-of-call-1", [1, 2, 3]))
            print("obs2: client thread's current_context.annotations after the blob call:", sorted(current_context.annotations))
            print("      request annotations a later, unrelated call is served with:", p.annotations_seen())
        # obs3
        current_context.annotations = {"WHO?": b"client-A"}
        with Proxy(outer_uri) as a:
            a.annotations_seen()
            a_addr = a._pyroLocalSocket
            SpyDaemon.seen_in_handshake.clear()
            current_context.annotations = {"WHO?": b"client-B"}
            with Proxy(outer_uri) as bb:
                bb._pyroBind()
                print("obs3: client A is", a_addr, "; client B is", bb._pyroLocalSocket)
                print("      validateHandshake for client B ran with:", SpyDaemon.seen_in_handshake[-1])
    finally:
        current_context.annotations = {}
        d1.shutdown()
        d2.shutdown()


if __name__ == "__main__":
    main()
