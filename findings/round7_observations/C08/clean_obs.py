"""
Clean-tree observations for C08 (UNCHANGED Pyro5): cases where 'the validator raises ... the peer receives a
connect-failure carrying the reason and the connection is closed' does not hold. In none of them is anything executed.
Prints what it sees; exits 0 always (it is a report, not a check).
"""
import os
import sys
import socket
import struct
import threading
import time

sys.path.insert(0, os.path.abspath(os.path.join(os.path.dirname(os.path.abspath(__file__)), "..")))

from Pyro5 import config, protocol, serializers, server, errors    # noqa: E402
from Pyro5.callcontext import current_context   # noqa: E402

config.POLLTIMEOUT = 0.2
EXECUTED = []


class Vault(object):
    @server.expose
    def touch(self, tag):
        EXECUTED.append(tag)
        return tag


class BadStr(Exception):
    def __str__(self):
        raise RuntimeError("no str for you")


def make_daemon_class(how):
    class D(server.Daemon):
        def validateHandshake(self, conn, data):
            if how == "SystemExit":
                raise SystemExit("denied")                      # BaseException, not Exception
            if how == "ConnectionClosedError":
                raise errors.ConnectionClosedError("auth backend lost")
            if how == "broken-str":
                raise BadStr()
            raise ValueError("plain rejection")
    return D


def wire(msgtype, payload, seq, serializer_id):
    current_context.correlation_id = None
    return protocol.SendingMessage(msgtype, 0, seq, serializer_id, payload).data


def read_replies(sock, timeout):
    sock.settimeout(timeout)
    buf, state = b"", "STILL OPEN"
    while True:
        try:
            chunk = sock.recv(65536)
        except socket.timeout:
            break
        except OSError:
            state = "closed"
            break
        if not chunk:
            state = "closed"
            break
        buf += chunk
    first = None
    hs = struct.calcsize('!4sHBBHHII16sHH')
    if len(buf) >= hs:
        first = struct.unpack('!4sHBBHHII16sHH', buf[:hs])[2]
    return first, state


def run(servertype, how, sername):
    config.SERVERTYPE = servertype
    del EXECUTED[:]
    d = make_daemon_class(how)(host="127.0.0.1", port=0)
    uri = d.register(Vault(), "vault")
    loop_exit = []

    def loop():
        try:
            d.requestLoop()
            loop_exit.append("returned")
        except BaseException as x:   # noqa
            loop_exit.append("died with %r" % x)
    t = threading.Thread(target=loop, daemon=True)
    t.start()
    time.sleep(0.2)
    ser = serializers.serializers[sername]
    s = socket.create_connection(("127.0.0.1", uri.port), timeout=3)
    s.sendall(wire(protocol.MSG_CONNECT, ser.dumps({"handshake": "x", "object": "vault"}), 1, ser.serializer_id)
              + wire(protocol.MSG_INVOKE, ser.dumpsCall("vault", "touch", ["t"], {}), 2, ser.serializer_id))
    first, state = read_replies(s, 1.5)
    extra = ""
    if servertype == "thread":
        time.sleep(0.5)
        pool = d.transportServer.pool
        extra = " busy-workers=%d" % len(pool.busy)
    else:
        time.sleep(0.3)
        extra = " requestLoop=%s" % (loop_exit[0] if loop_exit else "running")
    names = {None: "(no reply)", protocol.MSG_CONNECTFAIL: "CONNECTFAIL", protocol.MSG_CONNECTOK: "CONNECTOK"}
    print("[%-9s %-8s validator raises %-22s] first reply=%-11s socket=%-10s executed=%r%s"
          % (servertype, sername, how, names.get(first, first), state, EXECUTED, extra))
    s.close()
    try:
        d.shutdown()
    except Exception as x:   # noqa
        print("   (shutdown: %r)" % x)
    t.join(2)


if __name__ == "__main__":
    for st in ("thread", "multiplex"):
        run(st, "plain", "serpent")
        run(st, "ConnectionClosedError", "serpent")
        run(st, "broken-str", "serpent")
        run(st, "SystemExit", "serpent")
