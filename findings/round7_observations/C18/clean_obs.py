"""
Observations on the UNCHANGED tree (C18, thread pool).  Prints what it sees; exits 0 always.
Each observation is a case where the unchanged code seems to break the stated property.
"""
import os
import sys
import time
import socket
import threading

sys.path.insert(0, os.path.normpath(os.path.join(os.path.dirname(os.path.abspath(__file__)), "..")))

import Pyro5.api                      # noqa: E402
import Pyro5.errors                   # noqa: E402
from Pyro5 import config              # noqa: E402
from Pyro5.svr_threads import Pool, NoFreeWorkersError   # noqa: E402


class Job(object):
    def __init__(self, exc=None):
        self.runs = 0
        self.exc = exc

    def __call__(self):
        self.runs += 1
        if self.exc:
            raise self.exc


def obs1_close_wipes_handed_over_job():
    print("== obs 1: close() right after process(): is the accepted job run, or refused?")
    config.THREADPOOL_SIZE_MIN = 1
    config.THREADPOOL_SIZE = 2
    dropped = 0
    rounds = 20
    for _ in range(rounds):
        pool = Pool()
        job = Job()
        pool.process(job)      # accepted: no exception
        pool.close()           # Pool.close() stores None in the job slot of every busy worker
        time.sleep(0.05)
        if job.runs == 0:
            dropped += 1
    print("   accepted jobs that were never run and never refused: %d of %d" % (dropped, rounds))
    config.reset()


def obs2_baseexception_kills_worker_in_busy():
    print("== obs 2: a job ending in SystemExit (remote method calling sys.exit())")
    config.THREADPOOL_SIZE_MIN = 1
    config.THREADPOOL_SIZE = 1
    pool = Pool()
    w = next(iter(pool.idle))
    pool.process(Job(SystemExit(0)))
    w.join(2)
    print("   worker thread alive: %s; pool: %r" % (w.is_alive(), pool))
    try:
        pool.process(Job())
        print("   next job accepted")
    except NoFreeWorkersError as x:
        print("   next job refused although no job is running any more:", x)
    pool.close()
    config.reset()


@Pyro5.api.expose
class Service(object):
    def ping(self):
        return "pong"


def obs3_refusal_waits_for_the_refused_client():
    print("== obs 3: pool full, a client connects and stays silent; is the next client refused at once?")
    config.SERVERTYPE = "thread"
    config.THREADPOOL_SIZE_MIN = 1
    config.THREADPOOL_SIZE = 1
    daemon = Pyro5.api.Daemon(host="localhost", port=0)
    uri = daemon.register(Service(), "svc")
    t = threading.Thread(target=daemon.requestLoop, daemon=True)
    t.start()
    p1 = Pyro5.api.Proxy(uri)
    assert p1.ping() == "pong"           # occupies the only worker
    silent = socket.create_connection(daemon.sock.getsockname()[:2])   # connects, sends nothing
    time.sleep(0.3)
    p2 = Pyro5.api.Proxy(uri)
    p2._pyroTimeout = 2
    t0 = time.time()
    try:
        p2.ping()
        print("   second client served?!")
    except Pyro5.errors.CommunicationError as x:
        print("   second client after %.1fs: %s: %s" % (time.time() - t0, type(x).__name__, x))
    silent.close()
    p1._pyroRelease()
    p2._pyroRelease()
    daemon.shutdown()
    t.join(5)
    config.reset()


if __name__ == "__main__":
    obs1_close_wipes_handed_over_job()
    obs2_baseexception_kills_worker_in_busy()
    obs3_refusal_waits_for_the_refused_client()
