"""
Observations on the UNCHANGED tree that look like violations of C02 (not used as seeds).
Prints what it sees; always exits 0.
"""
import functools
import os
import sys
import threading

sys.path.insert(0, os.path.abspath(os.path.join(os.path.dirname(os.path.abspath(__file__)), "..")))

import Pyro5.client      # noqa: E402
import Pyro5.errors      # noqa: E402
import Pyro5.protocol    # noqa: E402
import Pyro5.server      # noqa: E402
from Pyro5.server import expose   # noqa: E402

LOG = []


@expose
class Helper(object):
    """a helper class that happens to be exposed (e.g. because it is also registered elsewhere)"""
    def __call__(self, *args):
        LOG.append("Helper.__call__%r" % (args,))
        return "helper called"

    def hm(self):
        return "hm"


class Target(object):
    class_helper = Helper()             # plain class attribute

    def __init__(self):
        self.inst_helper = Helper()     # plain instance attribute

    @expose
    def ok(self):
        return "ok"

    @functools.cached_property
    def cached(self):                   # NOT exposed; a non-data descriptor
        LOG.append("Target.cached body ran")
        return 42


class Base(object):
    """never exposes anything about 'secret'"""
    def __init__(self):
        self._s = "base-secret"

    @property
    def secret(self):
        LOG.append("Base.secret getter ran")
        return self._s

    @secret.setter
    def secret(self, value):
        LOG.append("Base.secret setter ran")
        self._s = value

    @expose
    def ok(self):
        return "ok"


class Sibling(Base):
    """a different class, never registered, that re-uses the inherited getter and exposes its own setter"""
    @expose
    @Base.secret.setter
    def secret(self, value):
        self._s = value


def attempt(proxy, *args, **kwargs):
    del LOG[:]
    try:
        result = proxy._pyroInvoke(*args, **kwargs)
        return "RESULT %r; target log=%s" % (result, LOG)
    except Exception as x:
        return "refused (%s: %s); target log=%s" % (type(x).__name__, x, LOG)


def main():
    daemon = Pyro5.server.Daemon(host="localhost", port=0)
    target, base = Target(), Base()
    uri_t, uri_b = daemon.register(target), daemon.register(base)
    threading.Thread(target=daemon.requestLoop, daemon=True).start()
    try:
        with Pyro5.client.Proxy(uri_t) as p:
            p._pyroBind()
            print("Target advertised:", sorted(p._pyroMethods | p._pyroAttrs))
            print("1a. call 'class_helper' (plain class attribute holding an instance of an exposed class):")
            print("     ", attempt(p, "class_helper", (1,), {}))
            print("1b. call 'inst_helper' (plain instance attribute, same):")
            print("     ", attempt(p, "inst_helper", (), {}))
            print("1c. batch ['inst_helper']:")
            print("     ", attempt(p, "<batch>", [("inst_helper", (), {})], None, flags=Pyro5.protocol.FLAGS_BATCH))
            print("2.  call 'cached' (unexposed functools.cached_property): refused, but its body runs first:")
            print("     ", attempt(p, "cached", (), {}))
            print("      value now cached on the object:", "cached" in vars(target))
        with Pyro5.client.Proxy(uri_b) as p:
            p._pyroBind()
            print("Base advertised:", sorted(p._pyroMethods | p._pyroAttrs), "(Base itself never exposed 'secret')")
            print("3a. attribute read 'secret' on a Base instance:")
            print("     ", attempt(p, "__getattr__", ("secret",), None))
            print("3b. attribute write 'secret' on a Base instance:")
            print("     ", attempt(p, "__setattr__", ("secret", "overwritten"), None))
            print("      base._s =", base._s)
    finally:
        daemon.shutdown()


if __name__ == "__main__":
    main()
