"""
Clean-tree observations for C10 (run on the UNCHANGED tree; exits 0 always, prints what it saw).

OBS-1  Proxy.__iter__ wraps the whole remote stream in `try: yield from <remote __iter__>() except AttributeError:`
       and falls back to index based iteration. An AttributeError raised by the SERVER-side generator midway is
       therefore swallowed, and the client restarts from index 0 via __getitem__: items are repeated and the
       generator's exception is never re-raised.
OBS-2  A generator that finishes with `return <unserializable value>` does not end the client stream with
       StopIteration: serializing StopIteration(value) fails and a generic PyroError is delivered instead.
"""
import os
import sys
import threading

sys.path.insert(0, os.path.abspath(os.path.join(os.path.dirname(os.path.abspath(__file__)), "..")))

import Pyro5.client       # noqa: E402
import Pyro5.server       # noqa: E402
from Pyro5 import config  # noqa: E402


@Pyro5.server.expose
class Seq(object):
    data = ["a", "b", "c", "d"]

    def __iter__(self):
        for i, v in enumerate(self.data):
            if i == 2:
                raise AttributeError("bug inside the server side generator")
            yield v

    def __getitem__(self, index):
        return self.data[index]

    def __len__(self):
        return len(self.data)

    def gen_with_return(self):
        yield 1
        yield 2
        return threading.Lock()     # not serializable


def main():
    config.SERVERTYPE = "thread"
    config.POLLTIMEOUT = 0.2
    daemon = Pyro5.server.Daemon(host="localhost", port=0)
    uri = daemon.register(Seq(), "seq")
    th = threading.Thread(target=daemon.requestLoop, daemon=True)
    th.start()
    try:
        with Pyro5.client.Proxy(uri) as p:
            got, err = [], None
            try:
                for v in p:
                    got.append(v)
            except Exception as x:
                err = x
            print("OBS-1 server generator yields a, b then raises AttributeError")
            print("      client received:", got, " exception seen by caller:", repr(err))
            print("      -> %s" % ("VIOLATES C10 (items repeated / exception swallowed)" if err is None else "ok"))

            got, err = [], None
            it = p.gen_with_return()
            try:
                while True:
                    got.append(next(it))
            except StopIteration:
                err = "StopIteration"
            except Exception as x:
                err = "%s: %s" % (type(x).__name__, str(x)[:90])
            print("OBS-2 generator yields 1, 2 then returns an unserializable value")
            print("      client received:", got, " stream ended with:", err)
            print("      -> %s" % ("ok" if err == "StopIteration" else "VIOLATES C10 (exhaustion not reported as StopIteration)"))
    finally:
        daemon.shutdown()
        th.join(5)


if __name__ == "__main__":
    main()
