"""
Observations on the UNCHANGED tree where property C07 already does not hold.  Prints what it sees; always exits 0.
"""
import os
import sys
import threading

sys.path.insert(0, os.path.normpath(os.path.join(os.path.dirname(os.path.abspath(__file__)), "..")))

import Pyro5.errors
import Pyro5.server
import Pyro5.client
import Pyro5.core


@Pyro5.server.expose
class T(object):
    def pyroerr(self, name):
        raise getattr(Pyro5.errors, name)("boom", 42)

    def stopiter(self):
        raise StopIteration("done", 1)

    def uriarg(self):
        raise ValueError("bad uri", Pyro5.core.URI("PYRO:x@h:1"))

    def nested(self):
        raise ValueError("wrapped", KeyError("inner"))

    def group(self):
        raise ExceptionGroup("several", [ValueError(1), KeyError(2)])

    def surrogate(self):
        raise ValueError("bad filename \udcff")

    def unserialisable_attr(self):
        e = ZeroDivisionError("original", 7)
        e.payload = threading.Lock()
        raise e

    def sysexit(self):
        raise SystemExit(3)

    def ping(self):
        return "pong"


def show(label, action):
    try:
        r = action()
        print("  %-52s returned %r" % (label, r))
    except BaseException as x:
        print("  %-52s raised %s.%s %s  (remote traceback: %s)" % (
            label, type(x).__module__, type(x).__name__, repr(x.args)[:110], bool(getattr(x, "_pyroTraceback", None))))


def main():
    d = Pyro5.server.Daemon(host="127.0.0.1", port=0)
    uri = d.register(T(), "t")
    threading.Thread(target=d.requestLoop, daemon=True).start()
    try:
        print("1. remote method raises a Pyro5 CommunicationError-family error: no reply at all, the server drops the connection")
        for name in ("CommunicationError", "ConnectionClosedError", "TimeoutError", "ProtocolError", "MessageTooLargeError"):
            with Pyro5.client.Proxy(uri) as p:
                p._pyroTimeout = 5
                show("raise Pyro5.errors.%s('boom', 42)" % name, lambda: p.pyroerr(name))

        print("2. remote SecurityError is delivered, but the server then drops the connection without the client knowing:\n"
              "   the NEXT call on the same proxy fails (SerializeError: client drops the connection itself, next call reconnects)")
        for name in ("SecurityError", "SerializeError"):
            with Pyro5.client.Proxy(uri) as p:
                p._pyroTimeout = 5
                show("raise Pyro5.errors.%s('boom', 42)" % name, lambda: p.pyroerr(name))
                show("   next call ping()", p.ping)
                show("   call after that ping()", p.ping)

        print("3. batch member raising StopIteration arrives as RuntimeError (client re-raises it inside a generator)")
        with Pyro5.client.Proxy(uri) as p:
            show("plain  stopiter()", p.stopiter)
            b = Pyro5.client.BatchProxy(p)
            b.stopiter()
            results = b()
            show("batch  stopiter()", lambda: next(results))

        print("4. exception args that are themselves 'class' values are not rebuilt (dict_to_class does not recurse into args)")
        for ser in ("serpent", "json", "msgpack"):
            with Pyro5.client.Proxy(uri) as p:
                p._pyroSerializer = ser
                show(ser + ": ValueError('bad uri', URI)", p.uriarg)
                show(ser + ": ValueError('wrapped', KeyError('inner'))", p.nested)
                show(ser + ": ExceptionGroup('several', [..])", p.group)

        print("5. text that cannot be encoded (lone surrogate) with json/msgpack: the generic fallback fails too -> no reply")
        for ser in ("serpent", "marshal", "json", "msgpack"):
            with Pyro5.client.Proxy(uri) as p:
                p._pyroSerializer = ser
                p._pyroTimeout = 5
                show(ser + ": ValueError('bad filename \\udcff')", p.surrogate)

        print("6. unserialisable attribute: plain call gets the generic PyroError naming the original; as a batch member it does not")
        for ser in ("serpent", "marshal", "json", "msgpack"):
            with Pyro5.client.Proxy(uri) as p:
                p._pyroSerializer = ser
                p._pyroTimeout = 5
                show(ser + " plain", p.unserialisable_attr)
                b = Pyro5.client.BatchProxy(p)
                b.unserialisable_attr()
                show(ser + " batch", lambda: next(b()))

        print("7. builtin exceptions that are not Exception subclasses (SystemExit): never reported, connection dropped")
        with Pyro5.client.Proxy(uri) as p:
            p._pyroTimeout = 5
            show("raise SystemExit(3)", p.sysexit)
            show("   next call ping()", p.ping)
    finally:
        d.shutdown()


if __name__ == "__main__":
    main()
