"""
Clean-tree observation for C15 (not a seed): AutoCleaner.run() decides on a snapshot (list(), then a connect
attempt outside the lock) and later calls nameserver.remove(name) by NAME only.  If a client re-registers that
name with a new, reachable URI in between, the fresh registration is removed.

Deterministic reproduction: the cleaner's round is suspended (sys.settrace, nothing patched) right before the
line `self.nameserver.remove(name)`, a client re-registers the name pointing at a live listening socket,
the cleaner continues.
"""
import os
import sys
import socket
import threading

sys.path.insert(0, os.path.abspath(os.path.join(os.path.dirname(os.path.abspath(__file__)), "..")))

import Pyro5.nameserver  # noqa: E402
from Pyro5 import config  # noqa: E402
from Pyro5.nameserver import NameServer, AutoCleaner  # noqa: E402

NS_FILE = os.path.abspath(Pyro5.nameserver.__file__)
import linecache  # noqa: E402


class QuickCleaner(AutoCleaner):
    override_autoclean_min = True
    loop_delay = 0.005
    max_unreachable_time = 0.0


def main():
    config.NS_AUTOCLEAN = 0.001
    config.COMMTIMEOUT = 0.5
    live = socket.socket()
    live.bind(("127.0.0.1", 0))
    live.listen(5)
    live_uri = "PYRO:obj@127.0.0.1:%d" % live.getsockname()[1]
    ns = NameServer()
    ns.register("svc", "PYRO:obj@127.0.0.1:1")      # dead: connection refused
    cleaner = QuickCleaner(ns)
    cleaner.last_cleaned = 0.0
    parked, resume = threading.Event(), threading.Event()

    def local(frame, event, arg):
        if event == "line" and frame.f_code.co_name == "run" and not parked.is_set() \
                and "self.nameserver.remove(name)" in linecache.getline(NS_FILE, frame.f_lineno):
            parked.set()
            resume.wait()
        return local

    def tracer(frame, event, arg):
        if os.path.abspath(frame.f_code.co_filename) == NS_FILE:
            return local

    def body():
        sys.settrace(tracer)
        cleaner.run()

    t = threading.Thread(target=body, daemon=True)
    t.start()
    if not parked.wait(10):
        print("cleaner never got to its remove() call - not reproduced")
        return
    cleaner.stop = True
    ns.register("svc", live_uri)                     # the service came back elsewhere and re-registered
    print("client re-registered svc ->", ns.lookup("svc"))
    resume.set()
    t.join(10)
    table = ns.list()
    print("table after the cleaner round:", table)
    if "svc" not in table:
        print("REPRODUCED: the fresh registration (reachable URI %s) was removed by the cleaner" % live_uri)
    else:
        print("not reproduced")
    live.close()


if __name__ == "__main__":
    main()
