"""Clean-tree observations for C16 (run on the UNCHANGED tree; prints what it sees, always exits 0)."""
import gc
import os
import sys
sys.path.insert(0, os.path.abspath(os.path.join(os.path.dirname(__file__), "..")))
import Pyro5.client
import Pyro5.server
from Pyro5.server import expose


@expose
class Thing(object):
    def __init__(self, name):
        self.name = name

    def who(self):
        return self.name


def obs1_stale_finalizer_after_unregister_by_id():
    with Pyro5.server.Daemon(port=0) as d:
        x = Thing("x")
        y = Thing("y")
        d.register(x, "slot", weak=True)
        d.unregister("slot")            # x is out, its finalizer stays armed with the id "slot"
        d.register(y, "slot")           # y, strongly registered, takes the id over
        del x
        gc.collect()
        still = "slot" in d.objectsById
        print("OBS1 weak x unregistered by id, y registered under the same id, x collected -> y still registered:", still)
        return still


def obs2_stale_finalizer_after_forced_replace():
    with Pyro5.server.Daemon(port=0) as d:
        x = Thing("x")
        y = Thing("y")
        d.register(x, "slot", weak=True)
        d.register(y, "slot", force=True)   # y replaces x
        del x
        gc.collect()
        still = "slot" in d.objectsById
        print("OBS2 weak x replaced by forced y, x collected -> y still registered:", still)
        return still


def obs3_unregister_by_stale_object_removes_successor():
    with Pyro5.server.Daemon(port=0) as d:
        x = Thing("x")
        y = Thing("y")
        d.register(x, "slot")
        d.unregister("slot")     # by id: x keeps _pyroId == "slot"
        d.register(y, "slot")
        d.unregister(x)          # x is not registered any more, yet this removes y
        still = "slot" in d.objectsById
        print("OBS3 unregister(x) with x long gone -> y still registered:", still,
              "; y keeps _pyroId:", hasattr(y, "_pyroId"))
        return still


def obs4_forced_second_id_survives_unregister_by_object():
    with Pyro5.server.Daemon(port=0) as d:
        x = Thing("x")
        d.register(x, "one")
        d.register(x, "two", force=True)
        d.unregister(x)
        left = [k for k in d.objectsById if k != "Pyro.Daemon"]
        print("OBS4 x registered under 'one' then forced under 'two', unregister(x) -> ids left:", left,
              "; x has _pyroId:", hasattr(x, "_pyroId"))
        return not left


def obs5_unregister_instance_of_registered_class():
    with Pyro5.server.Daemon(port=0) as d:
        d.register(Thing, "the.class")
        inst = Thing("never registered itself")
        try:
            d.unregister(inst)
            outcome = "returned normally"
        except Exception as x:
            outcome = "raised %s: %s" % (type(x).__name__, x)
        still = "the.class" in d.objectsById
        print("OBS5 unregister(instance of a registered class; the instance itself was never registered) ->", outcome,
              "; class still registered:", still)
        d.unregister("the.class")
        for a in ("_pyroId", "_pyroDaemon"):
            if a in vars(Thing):
                delattr(Thing, a)
        return still


def obs6_forced_second_id_then_unregister_newest_id():
    with Pyro5.server.Daemon(port=0) as d:
        x = Thing("x")
        d.register(x, "one")
        d.register(x, "two", force=True)
        d.unregister("two")
        reach = d.objectsById.get("one") is x
        replaced = Pyro5.server._pyro_obj_to_auto_proxy(x)
        try:
            d.uriFor(x)
            urifor = "gives a uri"
        except Exception as e:
            urifor = "raises %s" % type(e).__name__
        print("OBS6 x under 'one', forced under 'two', unregister('two') -> 'one' still reaches x:", reach,
              "; x would travel as:", type(replaced).__name__, "; uriFor(x)", urifor)
        return isinstance(replaced, Pyro5.client.Proxy)


def obs7_id_with_whitespace():
    with Pyro5.server.Daemon(port=0) as d:
        x = Thing("x")
        try:
            d.register(x, "my object")
            outcome = "returned normally"
        except Exception as e:
            outcome = "raised %s: %s" % (type(e).__name__, e)
        left = "my object" in d.objectsById
        print("OBS7 register(x, 'my object') ->", outcome, "; id registered afterwards:", left)
        return not left or outcome == "returned normally"


def obs8_urifor_of_replaced_object():
    with Pyro5.server.Daemon(port=0) as d:
        x = Thing("x")
        y = Thing("y")
        d.register(x, "slot")
        d.register(y, "slot", force=True)
        try:
            u = d.uriFor(x)
            outcome = "returns %s (which now addresses y)" % u.object
            ok = False
        except Exception as e:
            outcome = "raises %s" % type(e).__name__
            ok = True
        print("OBS8 x replaced by forced y under the same id; uriFor(x) ->", outcome)
        return ok


if __name__ == "__main__":
    r = [obs1_stale_finalizer_after_unregister_by_id(),
         obs2_stale_finalizer_after_forced_replace(),
         obs3_unregister_by_stale_object_removes_successor(),
         obs4_forced_second_id_survives_unregister_by_object(),
         obs5_unregister_instance_of_registered_class(),
         obs6_forced_second_id_then_unregister_newest_id(),
         obs7_id_with_whitespace(),
         obs8_urifor_of_replaced_object()]
    print("property holds in each observation:", r)
