"""
Clean-tree observations for C11 (batch == same calls one after another). Runs on the UNCHANGED tree and
prints, per observation, what the sequential run and the batch run gave. Exit code is always 0; this is a report.
"""
import os
import sys
import threading

sys.path.insert(0, os.path.abspath(os.path.join(os.path.dirname(os.path.abspath(__file__)), "..")))

import Pyro5.api  # noqa: E402
import Pyro5.client  # noqa: E402
import Pyro5.errors  # noqa: E402
import Pyro5.server  # noqa: E402


@Pyro5.server.expose
class Thing(object):
    def __init__(self):
        self.items = []

    def add(self, x):
        self.items.append(x)
        return self.items           # hands out its own (mutable) state

    def stop(self):
        raise StopIteration("done")

    def upstream(self):
        raise Pyro5.errors.TimeoutError("upstream service timed out")   # e.g. a gateway object relaying another proxy's error

    def retire(self):
        self._pyroDaemon.unregister(self)
        return "retired"

    def count(self):
        return len(self.items)

    @Pyro5.server.oneway
    def fire(self):
        self.items.append("fired")
        return "value of a oneway method"


def outcome_seq(proxy, calls):
    out = []
    for name, args in calls:
        try:
            out.append(getattr(proxy, name)(*args))
        except Exception as x:
            out.append("%s(%s)" % (type(x).__name__, x))
            break
    return out


def outcome_batch(proxy, calls):
    batch = Pyro5.client.BatchProxy(proxy)
    for name, args in calls:
        getattr(batch, name)(*args)
    out = []
    try:
        results = batch()
        while True:
            try:
                out.append(next(results))
            except StopIteration:
                break
    except Exception as x:
        out.append("%s(%s)" % (type(x).__name__, x))
    return out


def main():
    daemon = Pyro5.server.Daemon(host="localhost", port=0)
    thread = threading.Thread(target=daemon.requestLoop, daemon=True)
    thread.start()

    def pair():
        a, b = Thing(), Thing()
        return (a, Pyro5.client.Proxy(daemon.register(a))), (b, Pyro5.client.Proxy(daemon.register(b)))

    def compare(title, calls):
        (a, pa), (b, pb) = pair()
        s = outcome_seq(pa, calls)
        t = outcome_batch(pb, calls)
        print("%s\n    sequential: %r\n    batch     : %r\n    %s" % (title, s, t, "SAME" if s == t else "DIFFERENT"))
        pa._pyroRelease()
        pb._pyroRelease()

    try:
        compare("1. results that alias the object's mutable state are serialized only after the whole batch ran",
                [("add", (1,)), ("add", (2,)), ("add", (3,))])
        compare("2. a call raising StopIteration: the batch result generator turns it into RuntimeError (PEP 479)",
                [("count", ()), ("stop", ()), ("count", ())])
        compare("4. a call raising a Pyro CommunicationError subclass: sequentially the daemon sends no reply and drops the connection",
                [("count", ()), ("upstream", ()), ("count", ())])
        compare("5. the target object is looked up once per batch: calls after an unregister still run in a batch",
                [("add", (1,)), ("retire", ()), ("add", (2,))])
        compare("6. a @oneway method returns None when called directly, but its real return value inside a batch",
                [("fire", ()), ("count", ())])

        # 3. a batched-method object that is kept across a submission keeps appending to the old, discarded call list
        (a, pa), (b, pb) = pair()
        batch = Pyro5.client.BatchProxy(pb)
        add = batch.add
        add(1)
        list(batch())
        add(2)                      # goes to the list that was already submitted and dropped
        second = list(batch())
        pa.add(1)
        pa.add(2)
        print("3. reusing a held batch method after a submission silently loses the call\n"
              "    sequential state: %r\n    batch state     : %r (second batch returned %r)\n    %s"
              % (a.items, b.items, second, "SAME" if a.items == b.items else "DIFFERENT"))
    finally:
        daemon.shutdown()
        thread.join(5)


if __name__ == "__main__":
    main()
