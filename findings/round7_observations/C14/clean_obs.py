"""Observations on the UNCHANGED tree (C14). Prints what it sees; always exits 0."""
import os
import sys
import shutil
import tempfile

sys.path.insert(0, os.path.abspath(os.path.join(os.path.dirname(os.path.abspath(__file__)), "..")))
from Pyro5.nameserver import NameServer, MemoryStorage, SqlStorage   # noqa: E402

d = tempfile.mkdtemp(prefix="c14obs-")
U = "PYRO:o@h:1"
try:
    for label, ns in (("memory", NameServer(MemoryStorage())), ("sqlite", NameServer(SqlStorage(os.path.join(d, "x.sqlite"))))):
        print("==", label)
        # 1. the empty name can be registered and looked up but never removed by name; prefix '' removes nothing
        ns.register("", U, metadata={"t"})
        print("1  lookup('') ->", ns.lookup("", True)[1], "| remove('') ->", ns.remove(""), "| remove(prefix='') ->", ns.remove(prefix=""),
              "| count ->", ns.count(), "| list(prefix='') ->", sorted(ns.list(prefix="")))
        # 2. U+0000 inside names: sqlite substr() prefix query stops matching, memory startswith() matches
        for nm in ("a\x00b", "a\x00c", "a"):
            ns.register(nm, U)
        print("2  list(prefix='a\\x00') ->", sorted(ns.list(prefix="a\x00")), "| list(prefix='a\\x00b') ->", sorted(ns.list(prefix="a\x00b")),
              "| lookup('a\\x00b') ->", ns.lookup("a\x00b"))
        print("2b remove(prefix='a\\x00') ->", ns.remove(prefix="a\x00"), "| count ->", ns.count())
        # 3. lone surrogate in a name: memory accepts, sqlite raises UnicodeEncodeError (not NamingError)
        try:
            ns.register("s\ud800", U)
            print("3  surrogate name registered")
        except Exception as x:
            print("3  surrogate name ->", type(x).__name__)
        # 4. the sets handed out by list/yplookup(return_metadata=True) are the stored objects on the memory back-end
        ns.list(return_metadata=True)[""][1].add("smuggled")
        print("4  after mutating a set returned by list(): lookup('') tags ->", ns.lookup("", True)[1])
finally:
    shutil.rmtree(d, ignore_errors=True)
