"""Observations on the UNCHANGED tree that already bend property C19. Prints findings; always exits 0."""
import os
import sys
import tempfile
import threading
import time

sys.path.insert(0, os.path.abspath(os.path.join(os.path.dirname(os.path.abspath(__file__)), "..")))

import Pyro5.api                            # noqa: E402
import Pyro5.nameserver                     # noqa: E402
from Pyro5 import config, errors            # noqa: E402
from Pyro5.core import URI                  # noqa: E402
from Pyro5.serializers import serializers   # noqa: E402
from Pyro5.compatibility import Pyro4       # noqa: E402

print("1. PYROMETA uris: the object field is a set")
u = URI("PYROMETA:alpha,beta@host:9090")
try:
    hash(u)
except TypeError as x:
    print("   hash(URI('PYROMETA:...')) raises:", x)
for name, ser in sorted(serializers.items()):
    r = ser.loads(ser.dumps(u))
    print("   %-8s round trip equal=%s  object=%r" % (name, r == u, r.object))

print("2. URI / Proxy subclasses (e.g. the Pyro4 compatibility layer) cannot pass any serializer")
for obj in (Pyro4.URI("PYRO:obj@host:4444"), Pyro4.Proxy("PYRO:obj@host:4444")):
    for name, ser in sorted(serializers.items()):
        try:
            ser.loads(ser.dumps(obj))
            print("   %-8s %s ok" % (name, type(obj).__name__))
        except Exception as x:
            print("   %-8s %s -> %s: %s" % (name, type(obj).__name__, type(x).__name__, x))

print("3. an object id containing '@' is accepted by Daemon.register but its uri designates another object and host")
with Pyro5.api.Daemon(host="127.0.0.1", port=0) as d:
    class Thing(object):
        pass
    uri = d.register(Thing(), "user@example")
    print("   registered id 'user@example' ->", uri, " object=%r host=%r" % (uri.object, uri.host))
    print("   uri.object in daemon.objectsById:", uri.object in d.objectsById)

print("4. Daemon with an IPv6 nathost builds an unbracketed NAT location, so no uri can be made")
try:
    with Pyro5.api.Daemon(host="127.0.0.1", port=0, nathost="::1", natport=5555) as d:
        print("   natLocationStr =", d.natLocationStr)
        print("   uriFor ->", d.uriFor("obj"))
except Exception as x:
    print("   uriFor raises %s: %s" % (type(x).__name__, x))

print("5. PYRONAME uri whose name server location is a unix socket: resolve() ignores the socket")
sockdir = tempfile.mkdtemp()
sock = os.path.join(sockdir, "ns.sock")
nsuri, nsd, _ = Pyro5.nameserver.start_ns(unixsocket=sock)
t = threading.Thread(target=nsd.requestLoop, daemon=True)
t.start()
nsd.nameserver.register("thing", "PYRO:thing@somehost:4444")
config.NS_PORT = 1   # nothing listens there, so the default lookup cannot accidentally succeed
config.BROADCAST_ADDRS = ["127.0.0.1"]
try:
    u = URI("PYRONAME:thing@./u:" + sock)
    print("   parsed:", u, " sockname=%r host=%r" % (u.sockname, u.host))
    start = time.time()
    try:
        print("   resolve ->", Pyro5.api.resolve(u))
    except errors.PyroError as x:
        print("   resolve raises %s: %s (after %.1fs of looking for a tcp/broadcast name server)" % (type(x).__name__, x, time.time() - start))
    with Pyro5.api.Proxy("PYRO:Pyro.NameServer@./u:" + sock) as ns:
        print("   while the name server on that socket knows it:", ns.lookup("thing"))
finally:
    nsd.shutdown()
    t.join(5)
    nsd.close()
