"""
Clean-tree observations for C04 (UNCHANGED tree): decoded values that are neither plain data nor one of the closed set
of classes.  Prints what it finds; always exits 0 (this is a report, not a seed demo).
"""
import os
import sys
import marshal

sys.path.insert(0, os.path.abspath(os.path.join(os.path.dirname(os.path.abspath(__file__)), "..")))

import msgpack   # noqa: E402
from Pyro5 import serializers   # noqa: E402

m = serializers.serializers["marshal"]
mp = serializers.serializers["msgpack"]

code = compile("__import__('os').getpid()", "<payload>", "eval")
print("1a marshal loads      :", type(m.loads(marshal.dumps([code]))[0]))
print("1b marshal loadsCall  :", type(m.loadsCall(marshal.dumps(("obj", "meth", (code,), {})))[2][0]))
print("2  marshal b'S'       :", m.loads(b"S"), "(the StopIteration class object itself)")
ts = msgpack.Timestamp(1, 2)
print("3a msgpack loads      :", type(mp.loads(msgpack.packb(ts))))
print("3b msgpack loadsCall  :", type(mp.loadsCall(msgpack.packb(("obj", "meth", [ts], {})))[2][0]))
