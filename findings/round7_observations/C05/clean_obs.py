"""
Clean-tree observations for property C05 (UNCHANGED tree). Prints what it sees; exit code 0 always.

 obs 1: multiplex server - a remote method raises an Exception subclass that cannot be serialised AND
        whose __str__ raises an instance of the same class: the request loop terminates.
 obs 2: thread-pool server, pool exhausted, NO communication timeout: a client that connects and sends
        a truncated handshake (or nothing) and stays silent blocks the accept loop for as long as it
        likes; nobody else can connect in the meantime (not even after workers became free).
"""
import os
import sys
import time
import socket
import threading

sys.path.insert(0, os.path.normpath(os.path.join(os.path.dirname(os.path.abspath(__file__)), "..")))

from Pyro5 import config, server   # noqa: E402
import Pyro5.api   # noqa: E402
import logging
logging.getLogger("Pyro5").setLevel(logging.CRITICAL)


class Nasty(Exception):
    def __str__(self):
        cyc = []
        cyc.append(cyc)
        raise Nasty(cyc)


@Pyro5.api.expose
class Thing(object):
    def echo(self, x):
        return x

    def boom(self):
        cyc = []
        cyc.append(cyc)      # circular reference: serpent refuses to serialise the exception args
        raise Nasty(cyc)


def call_with_timeout(uri, method, *args, timeout=3.0):
    result = []

    def run():
        try:
            with Pyro5.api.Proxy(uri) as p:
                p._pyroTimeout = timeout
                result.append(("ok", getattr(p, method)(*args)))
        except Exception as x:
            result.append(("error", type(x).__name__))
    t = threading.Thread(target=run, daemon=True)
    t.start()
    t.join(timeout + 2)
    return result[0] if result else ("no answer", None)


def obs1():
    print("--- obs 1: multiplex, exception that is unserialisable and whose __str__ raises its own class")
    config.SERVERTYPE = "multiplex"
    config.COMMTIMEOUT = 0.0
    config.POLLTIMEOUT = 0.3
    d = server.Daemon(host="127.0.0.1", port=0)
    uri = d.register(Thing, "thing")
    sys.stderr = open(os.devnull, "w")      # silence the thread's traceback dump
    loop = threading.Thread(target=d.requestLoop, daemon=True)
    loop.start()
    print("witness before:", call_with_timeout(uri, "echo", 1))
    print("attacker call :", call_with_timeout(uri, "boom"))
    time.sleep(0.5)
    print("request loop thread alive:", loop.is_alive())
    print("fresh client after:", call_with_timeout(uri, "echo", 2))
    sys.stderr = sys.__stderr__
    if not loop.is_alive():
        print("=> the multiplex request loop DIED (svr_multiplex.handleRequest formats the exception with '%s' "
              "inside its own catch-all handler; str() raises again and nothing catches that)")


def obs2():
    print("--- obs 2: thread pool exhausted + silent peer, no COMMTIMEOUT")
    config.SERVERTYPE = "thread"
    config.THREADPOOL_SIZE = 1
    config.THREADPOOL_SIZE_MIN = 1
    config.COMMTIMEOUT = 0.0
    config.POLLTIMEOUT = 0.3
    d = server.Daemon(host="127.0.0.1", port=0)
    uri = d.register(Thing, "thing2")
    loop = threading.Thread(target=d.requestLoop, daemon=True)
    loop.start()
    holder = Pyro5.api.Proxy(uri)
    holder._pyroBind()                 # occupies the only worker
    host, port = d.transportServer.sock.getsockname()[:2]
    silent = socket.create_connection((host, port))
    silent.sendall(b"PYRO")            # 4 bytes of a header, then silence
    time.sleep(0.5)
    holder._pyroRelease()              # the worker is free again
    time.sleep(0.5)
    print("pool: busy=%d idle=%d" % (len(d.transportServer.pool.busy), len(d.transportServer.pool.idle)))
    r = call_with_timeout(uri, "echo", 3, timeout=3.0)
    print("fresh client while the silent peer is still connected:", r)
    silent.close()
    time.sleep(0.5)
    print("fresh client after the silent peer went away:", call_with_timeout(uri, "echo", 4))
    if r[0] != "ok":
        print("=> the accept loop was blocked in denyConnection()->_handshake()->recv on the silent peer's socket "
              "(it only comes back when that peer disconnects, or after COMMTIMEOUT if one is configured)")


if __name__ == "__main__":
    obs2()
    obs1()
    os._exit(0)
