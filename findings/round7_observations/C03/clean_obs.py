"""
Clean-tree observation for C03 (NOT a seed): a proxy created on a user-supplied connected socket
(Proxy(objectid, connected_socket=...), paired with Daemon(connected_socket=...) / svr_existingconn)
never recovers after one communication error, although the transport (the socket pair) stays healthy.

_pyroInvoke releases the connection on the TimeoutError; SocketConnection.close() is a no-op for
keep_open connections but Proxy._pyroRelease still sets _pyroConnection = None; the next call goes
through __pyroCreateConnection() WITHOUT the connected socket and tries to dial the placeholder
location "<<connected-socket>>:0" -> CommunicationError on every later call.

Exit code 0 = the behaviour described above was observed; 2 = not observed.
"""
import os
import sys
import time
import socket
import threading

sys.path.insert(0, os.path.abspath(os.path.join(os.path.dirname(os.path.abspath(__file__)), "..")))

import Pyro5.errors     # noqa: E402
import Pyro5.client     # noqa: E402
import Pyro5.server     # noqa: E402


@Pyro5.server.expose
class Thing(object):
    def echo(self, token, delay=0.0):
        if delay:
            time.sleep(delay)
        return token


def main():
    s_server, s_client = socket.socketpair()
    daemon = Pyro5.server.Daemon(connected_socket=s_server)
    daemon.register(Thing, "thing")
    threading.Thread(target=daemon.requestLoop, daemon=True).start()

    s_client.settimeout(0.4)
    p = Pyro5.client.Proxy("thing", connected_socket=s_client)
    print("call 1 ->", p.echo("t1"))
    try:
        p.echo("t2", 1.0)       # reply delayed past the timeout
        print("call 2 returned?!")
    except Pyro5.errors.CommunicationError as x:
        print("call 2 -> %s: %s" % (type(x).__name__, x))
    time.sleep(1.2)             # the late reply has been written to the (still open) socket by now
    print("socket still open on the client side: fileno =", s_client.fileno(), "; proxy connection:", p._pyroConnection)
    failures = 0
    for nr in (3, 4):
        try:
            print("call %d ->" % nr, p.echo("t%d" % nr))
        except Pyro5.errors.CommunicationError as x:
            failures += 1
            print("call %d -> %s: %s" % (nr, type(x).__name__, x))
    s_client.close()
    s_server.close()
    if failures == 2:
        print("OBSERVED: the proxy stays unusable after one communication error although the socket pair is healthy")
        sys.exit(0)
    print("not observed")
    sys.exit(2)


if __name__ == "__main__":
    main()
