import sys, os; sys.path.insert(0, os.getcwd())
# Clean-tree observation for C03 (not one of the seeded changes).
# With no transport fault at all, a call can fail with ConnectionClosedError because the daemon
# silently dropped the connection while handling the PREVIOUS call, which itself did not fail
# with a communication error on the client:
#   1. a oneway call whose request the daemon cannot deserialize (SerializeError is a
#      CommunicationError, so Daemon.handleRequest re-raises it and the transport closes the socket);
#      the oneway request was delivered, its method ran 0 times, and the next normal call fails;
#   2. a normal call answered with a SecurityError (error reply is sent, then the daemon drops the
#      connection; the client does not release because SecurityError is no CommunicationError).
import threading
import Pyro5.api, Pyro5.client, Pyro5.errors
from Pyro5 import config

config.MAX_RETRIES = 0


class Unknown(object):
    def __init__(self):
        self.x = 1


@Pyro5.api.expose
class T(object):
    def ping(self, token, extra=None):
        return "pong-" + token

    @Pyro5.api.oneway
    def fire(self, token, extra=None):
        pass


def attempt(f, *a):
    try:
        return repr(f(*a))
    except Exception as x:
        return "%s: %s" % (type(x).__name__, x)


daemon = Pyro5.api.Daemon(host="127.0.0.1", port=0)
uri = daemon.register(T(), "t")
th = threading.Thread(target=daemon.requestLoop, daemon=True)
th.start()
p = Pyro5.client.Proxy(uri)
p._pyroTimeout = 2
print("ping a                       ->", attempt(p.ping, "a"))
Unknown.__module__ = "clientapp.model"
print("oneway fire(b, Unknown())    ->", attempt(p.fire, "b", Unknown()))
import time; time.sleep(0.3)
print("ping c (transport healthy)   ->", attempt(p.ping, "c"))
print("ping d                       ->", attempt(p.ping, "d"))
Unknown.__module__ = "__main__"
print("ping e with dunder-class arg ->", attempt(p.ping, "e", Unknown()))
time.sleep(0.3)
print("ping f (transport healthy)   ->", attempt(p.ping, "f"))
print("ping g                       ->", attempt(p.ping, "g"))
p._pyroRelease()
daemon.shutdown()
th.join(timeout=5)
os._exit(0)
