import sys, os; sys.path.insert(0, os.getcwd())
# behaviour of the UNCHANGED tree in three corners of property C14
import shutil, tempfile
import Pyro5.nameserver as n
tmp = tempfile.mkdtemp()
try:
    for label, ns in (("memory", n.NameServer(n.MemoryStorage())),
                      ("sqlite", n.NameServer(n.SqlStorage(os.path.join(tmp, "x.sqlite"))))):
        for name in ["a\x00b", "a\x00c", "ab", ""]:
            ns.register(name, "PYRO:o@h:1", metadata=["t"])
        print(label, "list(prefix='a\\x00') ->", sorted(ns.list(prefix="a\x00")))
        print(label, "remove('') ->", ns.remove(""), "; '' still registered:", "" in ns.list())
        try:
            print(label, "yplookup(meta_any=<iterator>) ->", sorted(ns.yplookup(meta_any=iter(["t"]), return_metadata=False)))
        except Exception as x:
            print(label, "yplookup(meta_any=<iterator>) ->", type(x).__name__, x)
finally:
    shutil.rmtree(tmp, ignore_errors=True)
