import sys, os; sys.path.insert(0, os.getcwd())
import threading
import Pyro5.api, Pyro5.client, Pyro5.server
from Pyro5 import config

class Echo:
    @Pyro5.server.expose
    def blob(self, blob):
        return blob.info, blob.deserialized()

config.SERVERTYPE = "thread"
d = Pyro5.server.Daemon(host="localhost", port=0)
uri = d.register(Echo(), "echo")
t = threading.Thread(target=d.requestLoop, daemon=True); t.start()
for ser in ["serpent", "marshal", "json", "msgpack"]:
    with Pyro5.client.Proxy(uri) as p:
        p._pyroTimeout = 5
        p._pyroSerializer = ser
        try:
            print(ser, p.blob(Pyro5.client.SerializedBlob("info", [1, 2, 3])))
        except Exception as x:
            print(ser, "ERR", type(x), x)
d.shutdown()
