import sys, os; sys.path.insert(0, os.getcwd())
# SSL daemon: TLS handshake happens inside accept() without any timeout -> a silent TCP client freezes accept, both server types, even with COMMTIMEOUT
import threading, time, socket, ssl
import Pyro5.api, Pyro5.server
from Pyro5 import config, socketutil
config.SSL=True
config.SSL_SERVERCERT="certs/server_cert.pem"; config.SSL_SERVERKEY="certs/server_key.pem"; config.SSL_CACERTS="certs/server_cert.pem"
ctx=socketutil.get_ssl_context(cacerts=config.SSL_CACERTS); ctx.check_hostname=False; ctx.verify_mode=ssl.CERT_NONE
@Pyro5.api.expose
class T:
    def echo(self,x): return x
for st in ("thread","multiplex"):
    config.SERVERTYPE=st; config.POLLTIMEOUT=0.3; config.COMMTIMEOUT=1.0
    d=Pyro5.server.Daemon(host="127.0.0.1",port=0); uri=d.register(T(),"t")
    th=threading.Thread(target=d.requestLoop,daemon=True); th.start()
    w=Pyro5.api.Proxy(uri); w._pyroTimeout=3; print(st,"witness",w.echo(1))
    host,port=d.locationStr.split(":")
    silent=socket.create_connection((host,int(port)))
    time.sleep(2.5)   # > COMMTIMEOUT
    try: print(st,"witness during silent client:", w.echo(2))
    except Exception as x: print(st,"witness FAILED:",type(x).__name__,x)
    f=Pyro5.api.Proxy(uri); f._pyroTimeout=3
    try: print(st,"fresh client:", f.echo(3))
    except Exception as x: print(st,"fresh client FAILED:",type(x).__name__,str(x)[:80])
    silent.close(); time.sleep(0.5)
    f=Pyro5.api.Proxy(uri); f._pyroTimeout=3
    try: print(st,"fresh client after silent one left:", f.echo(3))
    except Exception as x: print(st,"fresh client FAILED:",type(x).__name__,str(x)[:80])
os._exit(0)
