import sys, os; sys.path.insert(0, os.getcwd())
import threading, time, socket
import Pyro5, Pyro5.api, Pyro5.errors, Pyro5.server
from Pyro5 import config, errors
print(Pyro5.__file__)

class Evil(errors.ProtocolError):
    def __str__(self):
        raise ValueError("no str for you")

@Pyro5.api.expose
class Thing:
    def echo(self, x): return x
    def boom(self): raise Evil("x")

for st in ("multiplex","thread"):
    config.SERVERTYPE = st
    config.POLLTIMEOUT = 0.3
    d = Pyro5.server.Daemon(port=0)
    uri = d.register(Thing(), "thing")
    t = threading.Thread(target=d.requestLoop, daemon=True); t.start()
    w = Pyro5.api.Proxy(uri); w._pyroTimeout = 3
    print(st, "witness", w.echo(1))
    h = Pyro5.api.Proxy(uri); h._pyroTimeout = 3
    try: h.boom()
    except Exception as x: print(st, "hostile got", type(x))
    time.sleep(0.5)
    print(st, "loop alive:", t.is_alive())
    try: print(st, "witness", w.echo(2))
    except Exception as x: print(st, "witness FAILED", type(x), x)
    try:
        d.shutdown()
    except Exception as x: print("shutdown", x)
