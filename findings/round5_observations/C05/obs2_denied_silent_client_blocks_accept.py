import sys, os; sys.path.insert(0, os.getcwd())
# thread server, pool full, one more client connects and stays silent -> accept loop frozen (no COMMTIMEOUT)
import threading, time, socket
import Pyro5.api, Pyro5.server
from Pyro5 import config
config.SERVERTYPE="thread"; config.THREADPOOL_SIZE=2; config.THREADPOOL_SIZE_MIN=1; config.POLLTIMEOUT=0.3; config.COMMTIMEOUT=0.0
@Pyro5.api.expose
class T:
    def echo(self,x): return x
d=Pyro5.server.Daemon(host="127.0.0.1",port=0); uri=d.register(T(),"t")
th=threading.Thread(target=d.requestLoop,daemon=True); th.start()
w1=Pyro5.api.Proxy(uri); w1._pyroTimeout=3; print("w1",w1.echo(1))
w2=Pyro5.api.Proxy(uri); w2._pyroTimeout=3; print("w2",w2.echo(2))     # pool (2) now full
host,port=d.locationStr.split(":")
silent=socket.create_connection((host,int(port)))                      # denied client that never sends its handshake
time.sleep(0.5)
w2._pyroRelease()                                                       # a worker becomes free again
time.sleep(0.5)
print("pool:", d.transportServer.pool)
w3=Pyro5.api.Proxy(uri); w3._pyroTimeout=3
try: print("w3", w3.echo(3))
except Exception as x: print("w3 FAILED although a worker is free:", type(x).__name__, x)
silent.close(); time.sleep(0.5)
w4=Pyro5.api.Proxy(uri); w4._pyroTimeout=3
try: print("after the silent client left: w4", w4.echo(4))
except Exception as x: print("w4 FAILED", type(x).__name__, x)
os._exit(0)
