import sys, os; sys.path.insert(0, os.getcwd())
# Clean-tree corner cases of C08: what does the peer see when the validator raises "any exception type"?
import socket, threading, time
from Pyro5 import config, protocol, serializers, socketutil, server, errors


def connect_msg():
    ser = serializers.serializers["serpent"]
    data = ser.dumps({"handshake": "x", "object": "Pyro.Daemon"})
    return protocol.SendingMessage(protocol.MSG_CONNECT, 0, 1, ser.serializer_id, data).data


def probe(servertype, exc):
    config.SERVERTYPE = servertype

    class D(server.Daemon):
        def validateHandshake(self, conn, data):
            raise exc

    d = D(host="127.0.0.1", port=0)
    t = threading.Thread(target=d.requestLoop, daemon=True)
    t.start()
    time.sleep(0.2)
    s = socket.create_connection(d.sock.getsockname()[:2], timeout=3)
    s.settimeout(3)
    s.sendall(connect_msg())
    try:
        data = s.recv(4096)
        if data:
            outcome = "reply type %d" % data[6]
            try:
                rest = s.recv(10)
                outcome += ", then closed" if not rest else ", then more data"
            except socket.timeout:
                outcome += ", connection left OPEN"
        else:
            outcome = "closed WITHOUT any connect-failure"
    except socket.timeout:
        outcome = "NO reply and connection left OPEN (peer hangs)"
    except OSError as x:
        outcome = "reset without reply (%s)" % x
    time.sleep(0.2)
    print("%-9s validator raises %-28r -> %s; request loop alive: %s" % (servertype, exc, outcome, t.is_alive()))
    s.close()
    try:
        d.shutdown()
    except Exception as x:
        print("   (shutdown error: %r)" % x)
    t.join(3)


watchdog = threading.Timer(50, lambda: os._exit(2)); watchdog.daemon = True; watchdog.start()
sys.stderr = open(os.devnull, "w")
for st in ("thread", "multiplex"):
    for exc in (ValueError("no"), errors.ConnectionClosedError("no"), SystemExit("no")):
        probe(st, exc)
os._exit(0)
