import sys, os; sys.path.insert(0, os.getcwd())
import socket
import Pyro5.server, Pyro5.socketutil

class Pool(object):
    """a callable factory object that is also a (currently empty) container -> falsy"""
    def __init__(self): self.spare = []; self.calls = 0
    def __len__(self): return len(self.spare)
    def __call__(self, clazz):
        self.calls += 1
        return clazz("from-pool")

pool = Pool()

@Pyro5.server.behavior(instance_mode="percall", instance_creator=pool)
class Thing(object):
    def __init__(self, origin="default-constructor"):
        self.origin = origin

d = Pyro5.server.Daemon(host="127.0.0.1")
conn = Pyro5.socketutil.SocketConnection(socket.socket())
inst = d._getInstance(Thing, conn)
print("instance origin:", inst.origin, "| creator calls:", pool.calls)
d.close()
print("OBSERVED: creator ignored" if pool.calls == 0 else "creator honoured")
