import sys, os; sys.path.insert(0, os.getcwd())
"""
Corners in which the UNCHANGED library does not close tracked resources exactly once. Real daemon, real connection.
"""
import threading
import time
import logging
import Pyro5.api
import Pyro5.server
import Pyro5.client
from Pyro5 import config
from Pyro5.callcontext import current_context

logging.disable(logging.CRITICAL)
closed = []     # names of resources whose close() ran, in order


class Resource(object):
    def __init__(self, name):
        self.name = name

    def close(self):
        closed.append(self.name)


class SelfUntrackingResource(Resource):
    """close() also takes itself off the tracking list, like the free() method of the resourcetracking example does"""
    def close(self):
        closed.append(self.name)
        current_context.untrack_resource(self)


class EqualResource(Resource):
    """two handles on 'the same' thing compare equal"""
    def __init__(self, name, key):
        super().__init__(name)
        self.key = key

    def __eq__(self, other):
        return isinstance(other, EqualResource) and other.key == self.key

    def __hash__(self):
        return hash(self.key)


keepalive = []   # strong references held by the 'application'


@Pyro5.api.expose
@Pyro5.api.behavior(instance_mode="session")
class Session(object):
    def open_owned(self):
        # the natural thing to do in a session object: keep the resource on self, and track it
        self.res = Resource("owned-by-session-instance")
        current_context.track_resource(self.res)

    def open_selfuntracking(self):
        for n in ("u1", "u2", "u3", "u4"):
            r = SelfUntrackingResource(n)
            keepalive.append(r)
            current_context.track_resource(r)

    def open_equal(self):
        for n in ("e1", "e2"):
            r = EqualResource(n, key=42)
            keepalive.append(r)
            current_context.track_resource(r)


def run(servertype, method):
    del closed[:]
    config.SERVERTYPE = servertype
    config.POLLTIMEOUT = 0.2
    hook = []

    class D(Pyro5.server.Daemon):
        def clientDisconnect(self, conn):
            hook.append(conn)

    d = D(host="localhost", port=0)
    uri = d.register(Session, "s")
    t = threading.Thread(target=d.requestLoop, daemon=True)
    t.start()
    with Pyro5.client.Proxy(uri) as p:
        p._pyroTimeout = 5
        getattr(p, method)()
    deadline = time.time() + 3
    while not hook and time.time() < deadline:
        time.sleep(0.02)
    time.sleep(0.3)
    print("%-10s %-20s hook calls=%d  close() calls: %s" % (servertype, method, len(hook), closed))
    d.shutdown()
    t.join(5)


for st in ("thread", "multiplex"):
    run(st, "open_owned")           # expected ['owned-by-session-instance'], observed []
    run(st, "open_selfuntracking")  # expected u1..u4 once each, observed only the first one
    run(st, "open_equal")           # expected e1 and e2, observed only e1


def existing_connection_server():
    # Daemon(connected_socket=...): the disconnect hook is never invoked at all
    import socket
    del closed[:]
    hook = []

    class D(Pyro5.server.Daemon):
        def clientDisconnect(self, conn):
            hook.append(conn)

    s_server, s_client = socket.socketpair()
    d = D(connected_socket=s_server)
    d.register(Session, "s")
    t = threading.Thread(target=d.requestLoop, daemon=True)
    t.start()
    p = Pyro5.client.Proxy("s", connected_socket=s_client)
    p._pyroTimeout = 5
    p.open_equal()
    p._pyroRelease()
    s_client.close()
    t.join(5)
    time.sleep(0.2)
    print("%-10s %-20s hook calls=%d  close() calls: %s  (loop ended: %s)" % ("existing", "open_equal", len(hook), closed, not t.is_alive()))


existing_connection_server()
sys.stdout.flush()
os._exit(0)
