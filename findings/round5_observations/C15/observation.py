import sys, os; sys.path.insert(0, os.getcwd())
"""
Clean-tree observation: with the default in-memory storage, remove(prefix=...) / remove(regex=...)
is not atomic for a client that does lookups.  NameServer.lookup() (and count()) do not take
NameServer.lock, and MemoryStorage.remove_items() deletes the entries one at a time, so a lookup
sequence can see "grp.a gone" followed by "grp.b still present".
The preemption is forced after each single deletion by a storage subclass that only adds the probe.
"""
import threading
import Pyro5.nameserver as nsmod
from Pyro5.errors import NamingError

NAMES = ["grp.a", "grp.b", "grp.c"]
observations = []


class ProbedStorage(nsmod.MemoryStorage):
    def __delitem__(self, key):
        super().__delitem__(key)
        seen = []

        def client():
            for n in NAMES:
                try:
                    ns.lookup(n)
                    seen.append((n, True))
                except NamingError:
                    seen.append((n, False))
        t = threading.Thread(target=client, daemon=True)
        t.start()
        t.join(10)
        observations.append((key, seen, ns.count()))


ns = nsmod.NameServer(ProbedStorage())
for n in NAMES:
    ns.register(n, "PYRO:x@localhost:1")
print("remove(prefix) returned", ns.remove(prefix="grp."))
bad = False
for key, seen, count in observations:
    print("after deleting %s: lookups %s count=%d" % (key, seen, count))
    gone = False
    for n, present in seen:
        if not present:
            gone = True
        elif gone:
            bad = True
print("partial removal visible to a concurrent client:", bad)
