import sys, os; sys.path.insert(0, os.getcwd())
import functools, threading
import Pyro5.api, Pyro5.errors
from Pyro5 import config
config.COMMTIMEOUT = 5.0

LOG = []

@Pyro5.api.expose
class Helper(object):
    def __init__(self, *args):
        LOG.append("Helper.__init__%r" % (args,))
    def __call__(self, *args):
        LOG.append("Helper.__call__%r" % (args,))
        return "helper called"

class Target(object):
    Nested = Helper                      # plain class attribute (a nested/exposed helper class)

    def __init__(self):
        self.helper = Helper()           # plain instance attribute
        del LOG[:]

    @Pyro5.api.expose
    def ping(self):
        return "pong"

    @functools.cached_property           # non-data descriptor, not exposed
    def expensive(self):
        LOG.append("cached_property body ran")
        return 42

    def __getattr__(self, name):         # delegation hook, not exposed (and a reserved dunder)
        LOG.append("__getattr__(%r) ran" % name)
        raise AttributeError(name)

target = Target()
daemon = Pyro5.api.Daemon(host="127.0.0.1", port=0)
uri = daemon.register(target, "t")
threading.Thread(target=daemon.requestLoop, daemon=True).start()
print("advertised:", daemon.objectsById["Pyro.Daemon"].get_metadata("t"))
with Pyro5.api.Proxy(uri) as p:
    p._pyroTimeout = 5.0
    p._pyroBind()
    for name, args in (("expensive", []), ("whatever", []), ("helper", [1, 2]), ("Nested", ["x"])):
        del LOG[:]
        try:
            r = ("result", p._pyroInvoke(name, args, {}))
        except Exception as x:
            r = ("error", type(x).__name__, str(x))
        print("%-10s -> %s | target-side effects: %s" % (name, r, LOG))
    print("instance dict now has 'expensive':", "expensive" in vars(target))
daemon.shutdown()
