import sys, os
sys.path.insert(0, os.getcwd())
import threading, time
import Pyro5.client, Pyro5.server
from Pyro5 import config
config.COMMTIMEOUT = 10.0


class Shelf(object):
    def __init__(self):
        self._items = []
    @Pyro5.server.expose
    def put(self, x):
        self._items.append(x)
        return len(self._items)
    @Pyro5.server.expose
    def items(self):
        return self._items
    @Pyro5.server.expose
    @Pyro5.server.oneway
    def fire(self, x):
        self._items.append(x)
        if x == "bad":
            raise ValueError("bad")
        return "fired"
    def hidden(self):
        pass


@Pyro5.server.expose
@Pyro5.server.behavior(instance_mode="percall")
class PerCall(object):
    def __init__(self):
        self.n = 0
    def inc(self):
        self.n += 1
        return self.n


def drain(gen):
    out = []
    try:
        for r in gen:
            out.append(r)
    except Exception as x:
        out.append(type(x).__name__)
    return out


daemon = Pyro5.server.Daemon(host="localhost", port=0)
stop = threading.Event()
t = threading.Thread(target=daemon.requestLoop, kwargs={"loopCondition": lambda: not stop.is_set()}, daemon=True)
t.start()
try:
    # 1. results are serialized after the whole batch ran
    u1, u2 = daemon.register(Shelf(), "s1"), daemon.register(Shelf(), "s2")
    with Pyro5.client.Proxy(u1) as p:
        seq = [p.put(1), p.items(), p.put(2)]
    with Pyro5.client.Proxy(u2) as p:
        b = Pyro5.client.BatchProxy(p); b.put(1); b.items(); b.put(2)
        bat = drain(b())
    print("1 live result:      sequential", seq, " batch", bat)

    # 2. percall instance mode
    u = daemon.register(PerCall, "pc")
    with Pyro5.client.Proxy(u) as p:
        seq = [p.inc(), p.inc(), p.inc()]
        b = Pyro5.client.BatchProxy(p); b.inc(); b.inc(); b.inc()
        bat = drain(b())
    print("2 percall:          sequential", seq, " batch", bat)

    # 3. @oneway method inside a normal batch
    u1, u2 = daemon.register(Shelf(), "s3"), daemon.register(Shelf(), "s4")
    with Pyro5.client.Proxy(u1) as p:
        seq = [p.fire("a"), p.fire("bad"), p.put(9)]
        time.sleep(0.3)
        seq_state = p.items()
    with Pyro5.client.Proxy(u2) as p:
        b = Pyro5.client.BatchProxy(p); b.fire("a"); b.fire("bad"); b.put(9)
        bat = drain(b())
        bat_state = p.items()
    print("3 oneway in batch:  sequential", seq, seq_state, " batch", bat, bat_state)

    # 4. a batch that fails at submission stays queued and is replayed by the next use
    u = daemon.register(Shelf(), "s5")
    with Pyro5.client.Proxy(u) as p:
        b = Pyro5.client.BatchProxy(p); b.put("x"); b.hidden(); b.put("y")
        try:
            b()
        except AttributeError as x:
            print("4 submit error:    ", x)
        b.put("z")
        try:
            r = drain(b())
        except AttributeError as x:
            r = "AttributeError again"
        print("4 replay:           second batch ->", r, " state", p.items())

    # 5. a method object obtained before batch() keeps appending to the discarded list
    u = daemon.register(Shelf(), "s6")
    with Pyro5.client.Proxy(u) as p:
        b = Pyro5.client.BatchProxy(p)
        put = b.put
        put(1)
        r1 = drain(b())
        put(2)
        r2 = drain(b())
        print("5 cached method:    first", r1, " second", r2, " state", p.items())
finally:
    stop.set()
    daemon.shutdown()
    t.join(5)
