import sys, os; sys.path.insert(0, os.getcwd())
import threading, time
import Pyro5.api, Pyro5.server, Pyro5.client, Pyro5.errors
from Pyro5 import config


@Pyro5.api.expose
class Seq(object):
    """remote object that is iterable remotely and also indexable"""
    data = ["q", "w", "e", "r"]

    def __iter__(self):
        def gen():
            yield self.data[0]
            yield self.data[1]
            raise AttributeError("server side problem midway")
        return gen()

    def __getitem__(self, index):
        return self.data[index]

    def slow(self):
        def gen():
            yield "one"
            time.sleep(0.6)
            yield "two"
            yield "three"
        return gen()

    def items(self, n):
        return iter(["i%d" % i for i in range(n)])


def start(servertype, polltimeout=0.1):
    config.SERVERTYPE = servertype
    config.POLLTIMEOUT = polltimeout
    d = Pyro5.server.Daemon(host="127.0.0.1", port=0)
    uri = d.register(Seq(), "seq")
    return d, uri


def obs1():
    d, uri = start("thread")
    t = threading.Thread(target=d.requestLoop, daemon=True); t.start()
    try:
        with Pyro5.client.Proxy(uri) as p:
            p._pyroTimeout = 5
            print("obs1 iter(proxy) over a generator that raises AttributeError after 2 items ->", list(iter(p)))
    finally:
        d.shutdown()


def obs2():
    d, uri = start("thread")
    t = threading.Thread(target=d.requestLoop, daemon=True); t.start()
    try:
        p = Pyro5.client.Proxy(uri)
        p._pyroTimeout = 0.3
        s = p.slow()
        got = [next(s)]
        try:
            next(s)
        except Pyro5.errors.TimeoutError:
            got.append("<timeout>")
        time.sleep(0.5)
        p._pyroReconnect(tries=1)
        got += list(s)
        print("obs2 slow generator one,two,three with client timeout + reconnect ->", got)
        p._pyroRelease()
    finally:
        d.shutdown()


def obs3():
    config.SERVERTYPE = "multiplex"
    config.POLLTIMEOUT = 0.1
    config.ITER_STREAM_LIFETIME = 0.4
    try:
        master = Pyro5.server.Daemon(host="127.0.0.1", port=0)
        second = Pyro5.server.Daemon(host="127.0.0.1", port=0)
        uri_m = master.register(Seq(), "seq")
        uri_s = second.register(Seq(), "seq")
        master.combine(second)
        t = threading.Thread(target=master.requestLoop, daemon=True); t.start()
        for name, uri, dm in (("master", uri_m, master), ("combined secondary", uri_s, second)):
            with Pyro5.client.Proxy(uri) as p:
                p._pyroTimeout = 5
                s = p.items(5)
                first = next(s)
                time.sleep(1.2)   # three times the configured lifetime
                try:
                    res = next(s)
                except Exception as x:
                    res = "%s: %s" % (type(x).__name__, x)
                print("obs3 lifetime 0.4s, next() after 1.2s on %s daemon -> %r (table size was %d)" % (name, res, len(dm.streaming_responses)))
        master.shutdown()
        second.close()
    finally:
        config.ITER_STREAM_LIFETIME = 0.0
        config.SERVERTYPE = "thread"


for f in (obs1, obs2, obs3):
    f()
