import sys, os; sys.path.insert(0, os.getcwd())
# Clean-tree observations for C12 (not one of the seeded changes).
import threading
import Pyro5.api, Pyro5.server, Pyro5.client
from Pyro5.callcontext import current_context


class Inner(object):
    @Pyro5.api.expose
    def inner(self):
        current_context.response_annotations["INNR"] = b"set by inner() for ITS caller"
        return "inner"

    @Pyro5.api.expose
    def store(self, blob):
        return "stored"

    @Pyro5.api.expose
    def seen(self):
        return sorted(current_context.annotations.keys())


class Outer(object):
    def __init__(self, inner_uri):
        self.inner_uri = inner_uri

    @Pyro5.api.expose
    def outer(self):
        current_context.response_annotations["OUTR"] = b"set by outer()"
        with Pyro5.api.Proxy(self.inner_uri) as p:
            p._pyroTimeout = 5
            p.inner()
        return "outer"


def start(obj, name):
    d = Pyro5.server.Daemon(host="127.0.0.1", port=0)
    uri = d.register(obj, name)
    threading.Thread(target=d.requestLoop, daemon=True).start()
    return d, uri


d1, inner_uri = start(Inner(), "inner")
d2, outer_uri = start(Outer(inner_uri), "outer")

with Pyro5.api.Proxy(outer_uri) as p:
    p._pyroTimeout = 5
    p.outer()
    print("1) reply of outer() carries:", sorted(current_context.response_annotations.keys()),
          "(expected ['OUTR']; 'INNR' was set by a different call on a different server for a different client)")

with Pyro5.api.Proxy(inner_uri) as p:
    p._pyroTimeout = 5
    print("2) before blob call, seen() request annotations:", p.seen())
    p.store(Pyro5.client.SerializedBlob("info", [1, 2, 3]))
    print("   after blob call,  seen() request annotations:", p.seen(),
          "(BLBI of the earlier blob call is re-sent with every later call of this thread)")
sys.stdout.flush()
os._exit(0)
