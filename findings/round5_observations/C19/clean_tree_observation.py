import sys, os; sys.path.insert(0, os.getcwd())
import Pyro5.core, Pyro5.client, Pyro5.server, Pyro5.serializers as S
from Pyro5.core import URI
from Pyro5.compatibility import Pyro4

# 1. PYROMETA uris are unhashable (state tuple holds a set) -> proxies holding them too
try:
    hash(URI("PYROMETA:a,b"))
    print("1. hash ok")
except TypeError as x:
    print("1. hash(URI('PYROMETA:a,b')) ->", repr(x))

# 2. PYROMETA uri through json/msgpack comes back unequal (tag set became a list)
u = URI("PYROMETA:a,b@h")
for name in ("serpent", "marshal", "json", "msgpack"):
    ser = S.serializers[name]
    u2 = ser.loads(ser.dumps(u))
    print("2.", name, "equal after round trip:", u2 == u, u2.__getstate__())

# 3. PYROMETA text form is not a fixed point (set iteration order depends on insertion order)
bad = 0
for i in range(300):
    t = str(URI("PYROMETA:t%d,u%d,v%d" % (i, i, i)))
    if str(URI(t)) != t:
        bad += 1
print("3. PYROMETA texts that are not a fixed point: %d of 300" % bad)

# 4. object ids containing '@': the uri the daemon hands out names another object and host
d = Pyro5.server.Daemon(port=0)
class X: pass
print("4. register(obj, 'user@domain') ->", d.register(X(), "user@domain").__getstate__())
d.close()

# 5. Pyro4-compat URI / Proxy subclasses cannot be received by any serializer
for name, ser in sorted(S.serializers.items()):
    for obj in (Pyro4.URI("PYRO:o@h:1"), Pyro4.Proxy("PYRO:o@h:1")):
        try:
            ser.loads(ser.dumps(obj)); print("5.", name, "ok")
        except Exception as x:
            print("5.", name, type(obj).__name__, "->", x)
