import sys, os; sys.path.insert(0, os.getcwd())
import threading, time, logging, socket
import Pyro5.api
from Pyro5 import config, errors
logging.disable(logging.CRITICAL)
config.THREADPOOL_SIZE = 1
config.THREADPOOL_SIZE_MIN = 1
config.POLLTIMEOUT = 0.5

@Pyro5.api.expose
class T(object):
    def echo(self, x):
        return x

d = Pyro5.api.Daemon(host="localhost", port=0)
uri = d.register(T(), "t")
threading.Thread(target=d.requestLoop, daemon=True).start()
p1 = Pyro5.api.Proxy(uri); p1._pyroTimeout = 3
p1.echo(1)                              # occupies the only worker
silent = socket.create_connection((uri.host, uri.port), timeout=3)   # connects, never sends a handshake
time.sleep(0.8)
p1._pyroRelease()                       # worker is free again
time.sleep(0.5)
p3 = Pyro5.api.Proxy(uri); p3._pyroTimeout = 3
try:
    print("third client ->", p3.echo(3))
except Exception as x:
    print("third client (pool is idle!) ->", repr(x))
print("pool:", d.transportServer.pool)
sys.stdout.flush(); os._exit(0)
