import sys, os; sys.path.insert(0, os.getcwd())
import threading, time, logging
from Pyro5 import config
from Pyro5.svr_threads import Pool
logging.disable(logging.CRITICAL)
config.THREADPOOL_SIZE = 1
config.THREADPOOL_SIZE_MIN = 1
ran = []
pool = Pool()
w = next(iter(pool.idle))
gate = threading.Event()
orig_clear = w.job_available.clear
def slow_clear():
    gate.wait(5)        # worker preempted between wait() and clear()
    orig_clear()
w.job_available.clear = slow_clear
pool.process(lambda: ran.append(1))      # accepted: no exception
closer = threading.Thread(target=pool.close, daemon=True)
closer.start()
time.sleep(0.05)
gate.set()
closer.join(5)
time.sleep(0.3)
print("accepted job ran %d times; worker alive: %s" % (len(ran), w.is_alive()))
sys.stdout.flush(); os._exit(0)
