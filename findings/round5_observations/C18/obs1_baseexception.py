import sys, os; sys.path.insert(0, os.getcwd())
import threading, time, logging
import Pyro5.api
from Pyro5 import config, errors
logging.disable(logging.CRITICAL)
config.THREADPOOL_SIZE = 1
config.THREADPOOL_SIZE_MIN = 1
config.POLLTIMEOUT = 0.5
threading.excepthook = lambda a: None

@Pyro5.api.expose
class T(object):
    def quit(self):
        sys.exit(3)          # BaseException, not Exception
    def echo(self, x):
        return x

d = Pyro5.api.Daemon(host="localhost", port=0)
uri = d.register(T(), "t")
threading.Thread(target=d.requestLoop, daemon=True).start()
p = Pyro5.api.Proxy(uri); p._pyroTimeout = 3
try:
    p.quit()
except Exception as x:
    print("quit ->", repr(x))
p._pyroRelease()
time.sleep(0.5)
pool = d.transportServer.pool
print("pool:", pool, "alive busy workers:", [w.is_alive() for w in pool.busy])
p2 = Pyro5.api.Proxy(uri); p2._pyroTimeout = 3
try:
    print("echo ->", p2.echo(1))
except Exception as x:
    print("new client ->", repr(x))
sys.stdout.flush(); os._exit(0)
