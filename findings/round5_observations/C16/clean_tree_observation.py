import sys, os; sys.path.insert(0, os.getcwd())
# Corners in which the UNCHANGED tree already departs from the C16 statement (no daemon loop needed).
import gc
import Pyro5.server, Pyro5.client, Pyro5.errors
from Pyro5 import serializers


@Pyro5.server.expose
class K(object):
    def hi(self):
        return 1


@Pyro5.server.expose
class L(list):
    def hi(self):
        return 1


d = Pyro5.server.Daemon(host="127.0.0.1", port=0)

# 1. finalizer of an earlier weak registration removes the CURRENT holder of the id
a, b = K(), K()
d.register(a, "x", weak=True)
d.unregister("x")            # (unregister(a) behaves the same)
d.register(b, "x")           # plain, strong, unforced registration of another object
del a
gc.collect()
print("1. 'x' still registered for b after the former weak holder was collected:", "x" in d.objectsById)

# 2. unregister(old object) after a forced replacement removes the new object's registration
a, b = K(), K()
d.register(a, "y")
d.register(b, "y", force=True)
print("2a. uriFor(a) (a is no longer registered) ->", d.uriFor(a), "(reaches b)")
d.unregister(a)
print("2b. 'y' still registered for b after unregister(a):", "y" in d.objectsById)

# 3. an id containing '@' is accepted, but the uri handed out addresses another id
c = K()
uri = d.register(c, "a@b")
print("3. registered id 'a@b'; register() returned", uri, "-> uri.object =", repr(uri.object),
      "| ids:", [k for k in d.objectsById if k.startswith("a")])

# 4. a registered object whose class derives from a builtin container is auto-proxied by serpent only
l = L()
d.register(l, "lst")
for name in ("serpent", "json", "msgpack"):
    ser = serializers.serializers.get(name)
    if ser:
        back = ser.loads(ser.dumps([l]))[0]
        print("4. %-8s registered list-subclass object arrives as %s" % (name, type(back).__name__))
d.close()
