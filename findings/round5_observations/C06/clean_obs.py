import sys, os; sys.path.insert(0, os.getcwd())
import array, struct
from Pyro5 import protocol, errors
H = protocol._header_size
# 1. memoryview annotation with itemsize > 1: declared length counts items, bytes written are nbytes
mv = memoryview(array.array("I", [1, 2, 3]))
m = protocol.SendingMessage(protocol.MSG_INVOKE, 0, 1, 2, b"payload", {"ABCD": mv})
print("1. len(data)=%d but header declares %d" % (len(m.data), H + struct.unpack("!I", m.data[16:20])[0] + struct.unpack("!I", m.data[12:16])[0]))
try:
    r = protocol.ReceivingMessage(m.data[:H], m.data[H:])
    print("   decoded", bytes(r.data), {k: bytes(v) for k, v in r.annotations.items()})
except Exception as x:
    print("   decoder:", type(x).__name__, x)
# 2. annotation chunk overrunning the annotation area -> AssertionError (nothing at all under python -O)
good = protocol.SendingMessage(protocol.MSG_INVOKE, 0, 1, 2, b"0123456789", {"ABCD": b"xy"})
raw = bytearray(good.data)
raw[H+4:H+8] = (6).to_bytes(4, "big")    # chunk claims 6 bytes, annotation area holds 2
try:
    r = protocol.ReceivingMessage(bytes(raw[:H]), bytes(raw[H:]))
    print("2. accepted:", {k: bytes(v) for k, v in r.annotations.items()}, bytes(r.data))
except Exception as x:
    print("2. decoder:", type(x).__name__, repr(x))
# 3. duplicate annotation ids and non-zero reserved field are accepted
hdr = bytearray(protocol.SendingMessage(protocol.MSG_INVOKE, 0, 1, 2, b"", {"ABCD": b"1", "EFGH": b"2"}).data)
hdr[H+9:H+13] = b"ABCD"
hdr[36:38] = b"\xff\xff"
r = protocol.ReceivingMessage(bytes(hdr[:H]), bytes(hdr[H:]))
print("3. accepted:", {k: bytes(v) for k, v in r.annotations.items()})
