import sys, os; sys.path.insert(0, os.getcwd())
import io, threading, time, traceback
from wsgiref.util import setup_testing_defaults
import Pyro5, Pyro5.core, Pyro5.client, Pyro5.server, Pyro5.nameserver
from Pyro5.utils import httpgateway
from Pyro5.callcontext import current_context

Pyro5.config.SERIALIZER = "json"
CALLS = []

@Pyro5.server.expose
class Target(object):
    def echo(self, message="<default>", **kw):
        CALLS.append(("echo", message, kw))
        return message
    def annotated(self):
        CALLS.append(("annotated",))
        current_context.response_annotations = {"XTRA": b"hello"}
        return "annotated result"

def request(path, query="", headers=None):
    environ = {"PATH_INFO": path, "REQUEST_METHOD": "GET", "QUERY_STRING": query,
               "wsgi.input": io.BytesIO(b""), "CONTENT_LENGTH": 0}
    setup_testing_defaults(environ)
    environ["wsgi.errors"] = io.StringIO()
    environ.update(headers or {})
    result = {}
    def start_response(status, hdrs):
        result["status"] = status
    try:
        chunks = list(httpgateway.pyro_app(environ, start_response))
    except Exception as x:
        return "EXCEPTION escaped pyro_app: %r" % x, None
    return result["status"], chunks

threading.Timer(40, lambda: os._exit(2)).start()
d = Pyro5.server.Daemon(host="127.0.0.1", port=0)
ns = Pyro5.nameserver.NameServer()
ns_uri = d.register(ns, Pyro5.core.NAMESERVER_NAME)
ns.register("http.t", d.register(Target()))
threading.Thread(target=d.requestLoop, daemon=True).start()
httpgateway.pyro_app.comm_timeout = 5.0
httpgateway._nameserver = Pyro5.client.Proxy(ns_uri)
httpgateway._nameserver._pyroBind()

httpgateway.pyro_app.gateway_key = b"k"
print("1. duplicated $key      :", request("/pyro/http.t/echo", "$key=a&$key=b"))
httpgateway.pyro_app.gateway_key = None
print("2. blank value          :", request("/pyro/http.t/echo", "message="), CALLS[-1:])
print("3. response annotations :", [ (s, [type(c).__name__ for c in ch]) for s, ch in [request("/pyro/http.t/annotated")]])
print("4. parameter named self :", request("/pyro/http.t/echo", "self=1"), CALLS[-1:])
print("5. OPTIONS w/o key      :", end=" ")
httpgateway.pyro_app.gateway_key = b"k"
environ = {"PATH_INFO": "/pyro/Pyro.NameServer/list", "REQUEST_METHOD": "OPTIONS", "QUERY_STRING": ""}
setup_testing_defaults(environ)
st = {}
print(list(httpgateway.pyro_app(environ, lambda s, h: st.update(s=s))), st)
# 3b: the same through the real wsgiref server
from wsgiref.simple_server import make_server, WSGIRequestHandler
import urllib.request, urllib.error
class Quiet(WSGIRequestHandler):
    def log_message(self, *a): pass
    def get_stderr(self): return io.StringIO()
httpgateway.pyro_app.gateway_key = None
srv = make_server("127.0.0.1", 0, httpgateway.pyro_app, handler_class=Quiet)
def serve():
    # the cached name server proxy must be owned by the serving thread
    httpgateway._nameserver._pyroClaimOwnership()
    srv.serve_forever()
httpgateway._nameserver._pyroRelease()
threading.Thread(target=serve, daemon=True).start()
time.sleep(0.3)
try:
    r = urllib.request.urlopen("http://127.0.0.1:%d/pyro/http.t/annotated" % srv.server_port, timeout=10)
    print("3b. via wsgiref server  :", r.status, r.read())
except urllib.error.HTTPError as x:
    print("3b. via wsgiref server  :", x.code, x.read()[:80])
except Exception as x:
    print("3b. via wsgiref server  : error", repr(x))
print("    calls:", CALLS[-1:])
sys.stdout.flush()
os._exit(0)
