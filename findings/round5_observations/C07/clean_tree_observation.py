import sys, os; sys.path.insert(0, os.getcwd())
# Corners where the UNCHANGED tree already deviates from C07 (prints what the caller sees).
import threading
import Pyro5.server, Pyro5.client, Pyro5.errors, Pyro5.core

timer = threading.Timer(50, lambda: os._exit(2)); timer.daemon = True; timer.start()


@Pyro5.server.expose
class Thing(object):
    def boom(self, kind):
        if kind == "pyro-timeout":
            raise Pyro5.errors.TimeoutError("remote says timeout")      # any CommunicationError except SerializeError
        if kind == "pyro-security":
            raise Pyro5.errors.SecurityError("remote says no")
        if kind == "oserror-filename":
            raise OSError(2, "No such file", "foo.txt")
        if kind == "uri-attribute":
            e = ValueError("x"); e.where = Pyro5.core.URI("PYRO:a@b:1"); raise e
        if kind == "nested-exception-arg":
            raise ValueError("x", KeyError("k"))
        if kind == "exception-group":
            raise ExceptionGroup("g", [ValueError(1)])

    @Pyro5.server.callback
    def cb(self):
        raise ValueError("from callback")

    def stop(self):
        raise StopIteration("s")

    def ok(self):
        return "ok"


d = Pyro5.server.Daemon(host="localhost", port=0)
uri = d.register(Thing(), "thing")
threading.Thread(target=d.requestLoop, daemon=True).start()


def show(label, f):
    try:
        print("%-28s -> returned %r" % (label, f()))
    except BaseException as x:
        attrs = {k: v for k, v in vars(x).items() if k not in ("_pyroTraceback", "partialData")}
        print("%-28s -> %s.%s args=%r attrs=%r filename=%r remote-tb=%s" % (
            label, type(x).__module__, type(x).__name__, x.args, attrs, getattr(x, "filename", None),
            bool(getattr(x, "_pyroTraceback", None))))


for ser in ("serpent", "marshal"):
    print("=====", ser)
    p = Pyro5.client.Proxy(uri); p._pyroSerializer = ser; p._pyroTimeout = 5
    for kind in ("pyro-timeout", "pyro-security", "oserror-filename", "uri-attribute", "nested-exception-arg", "exception-group"):
        show(kind, lambda: p.boom(kind))
        show("   next call", p.ok)
    show("@callback method", p.cb)
    show("   next call", p.ok)
    b = Pyro5.client.BatchProxy(p); b.ok(); b.stop()
    show("batch member StopIteration", lambda: list(b()))
    p._pyroRelease()
d.shutdown()
