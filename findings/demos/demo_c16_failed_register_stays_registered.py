"""F40 (C16): Daemon.register() stores the object in the registry and only then builds the URI it returns; for an id that is not a valid URI object name (a space) the
URI constructor raises - register() fails, yet the object stays registered, is listed by registered() and reachable by calls to that id.
exit 0 = a failed register() leaves nothing behind; exit 1 = defect reproduced."""
import os, sys
sys.path.insert(0, os.environ.get("PYRO5_TREE", "/repo"))
import Pyro5.api, Pyro5.server, Pyro5.errors


@Pyro5.api.expose
class Thing(object):
    def ping(self):
        return "pong"


d = Pyro5.server.Daemon(port=0)
t = Thing()
try:
    d.register(t, "my object")
    print("register accepted the id")
    failed = False
except Exception as x:
    print("register raised", type(x).__name__, x)
    failed = True
listed = "my object" in d.objectsById
print("registered afterwards:", listed, " marks:", getattr(t, "_pyroId", None))
d.close()
sys.exit(1 if failed and listed else 0)
