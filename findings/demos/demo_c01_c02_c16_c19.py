import Pyro5.api as api, Pyro5.server as server, Pyro5.core as core
from Pyro5 import serializers
# C01 msgpack asymmetry
ser=serializers.serializers["msgpack"]
big=2**70
print("C01 msgpack result path:", ser.loads(ser.dumps([big, 1+2j])))
print("C01 msgpack arg path   :", ser.loadsCall(ser.dumpsCall("o","m",[big,1+2j],{}))[2])
# C02 private alias of exposed property
log=[]
class A:
    @api.expose
    @property
    def value(self): log.append("value-get"); return 1
    _alias = value
    @api.expose
    def meth(self): return 2
@api.expose
class Helper:
    def __call__(self,*a): log.append("helper-called"); return 3
    def hm(self): pass
class B:
    helper = Helper()
    Inner = Helper
    @api.expose
    def m(self): pass
a=A()
try: print("C02 get _alias ->", server._get_exposed_property_value(a,"_alias"), log)
except Exception as e: print("C02 _alias refused", e)
print("C02 metadata A:", server._get_exposed_members(A))
b=B()
for nm in ("helper","Inner"):
    try:
        m=server._get_attribute(b,nm); print("C02 served attr",nm,"->",m, "call:", m())
    except Exception as e: print("C02",nm,"refused:",e)
print("C02 metadata B:", server._get_exposed_members(B), log)
# C16
d=api.Daemon()
class O:
    @api.expose
    def f(self): return 1
o=O(); d.register(o,"oid"); d.unregister("oid")
print("C16 after unregister by id: marks left:", hasattr(o,"_pyroId"), hasattr(o,"_pyroDaemon"))
try: print(serializers.serializers["serpent"].dumps(o))
except Exception as e: print("C16 returning object after unregister-by-id:", repr(e))
o2=O()
try:
    d.register(o2, core.DAEMON_NAME, force=True); print("C16 daemon object replaced:", type(d.objectsById[core.DAEMON_NAME]))
except Exception as e: print("C16 refused", e)
d.close()
# C19
u=core.URI("PYRO:obj@:80"); print("C19 empty host str:", str(u))
try: core.URI(str(u))
except Exception as e: print("C19 reparse fails:", e)
try: hash(core.URI("PYROMETA:a,b"))
except Exception as e: print("C19 hash PYROMETA:", repr(e))
u=core.URI("PYRO:obj@./u:"+"a b"); print(repr(str(u)), core.URI(str(u))==u)
