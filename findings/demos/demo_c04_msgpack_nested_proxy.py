# C04 triage: msgpack decodes bottom-up (object_hook), so a Proxy dict nested in another tagged dict's state is a live Proxy
# when the outer __setstate__ iterates it -> the decoder opens a socket to a peer-chosen address while decoding.
import sys, socket, threading, msgpack
from Pyro5 import serializers, config
config.COMMTIMEOUT = 1.0
srv = socket.socket(); srv.bind(("127.0.0.1", 0)); srv.listen(5); srv.settimeout(3)
port = srv.getsockname()[1]
hits = []
def acc():
    try:
        c, a = srv.accept(); hits.append(a); c.close()
    except Exception:
        pass
t = threading.Thread(target=acc); t.start()
inner = {"__class__": "Pyro5.client.Proxy", "state": ["PYRO:bait@127.0.0.1:%d" % port, [], [], [], "hello", None]}
outer = {"__class__": "Pyro5.client.Proxy", "state": ["PYRO:x@127.0.0.1:1", inner, [], [], "hello", None]}
for name in ("msgpack", "json", "serpent", "marshal"):
    ser = serializers.serializers[name]
    if name == "msgpack":
        data = msgpack.packb(outer, use_bin_type=True)
    elif name == "json":
        import json; data = json.dumps(outer).encode()
    elif name == "serpent":
        import serpent; data = serpent.dumps(outer)
    else:
        import marshal; data = marshal.dumps(outer)
    before = len(hits)
    try:
        ser.loads(data); res = "decoded"
    except Exception as x:
        res = "raised %s" % type(x).__name__
    import time; time.sleep(0.3)
    print("%-8s %s; connections to bait listener during decode: %d" % (name, res, len(hits) - before))
    if name == "msgpack":
        t.join(4); t = threading.Thread(target=acc); t.start()
t.join(4)
