"""
F46 (C13): ITER_STREAM_LINGER = 0.  Daemon._clientDisconnect looks a stream up (`get`) and then removes it with `del`: when another thread removes the same stream in
between (the client's close_stream arriving over the helper connection, or the housekeeper expiring it), the KeyError leaves _clientDisconnect before the
user's clientDisconnect hook is called - zero hook calls for a connection that ended.
The demo forces the window with a dict subclass whose get() lets a second thread remove the entry (the daemon code is not patched).
exit 1 = defect present.
"""
import sys
import threading
import time
import Pyro5.api
import Pyro5.server
import Pyro5.client
from Pyro5 import config

config.ITER_STREAM_LINGER = 0
config.SERVERTYPE = "thread"


@Pyro5.api.expose
class Service(object):
    def numbers(self):
        for i in range(1, 100):
            yield i


class CountingDaemon(Pyro5.server.Daemon):
    def __init__(self, *a, **kw):
        super().__init__(*a, **kw)
        self.disconnects = 0

    def clientDisconnect(self, conn):
        self.disconnects += 1


class RacingDict(dict):
    armed = False

    def get(self, key, default=None):
        value = super().get(key, default)
        if self.armed and value is not None:
            self.armed = False
            t = threading.Thread(target=lambda: dict.pop(self, key, None))    # "another thread removes the stream right now"
            t.start()
            t.join(5)
        return value


daemon = CountingDaemon(port=0)
uri = daemon.register(Service(), "svc")
daemon.streaming_responses = RacingDict()
threading.Thread(target=daemon.requestLoop, daemon=True).start()
p = Pyro5.client.Proxy(uri)
it = p.numbers()
print("first item:", next(it))
daemon.streaming_responses.armed = True
it.proxy = None          # the client just goes away, without close_stream
p._pyroRelease()
deadline = time.time() + 5
while time.time() < deadline and daemon.disconnects == 0 and daemon.streaming_responses.armed:
    time.sleep(0.05)
time.sleep(0.5)
print("disconnect hook calls for the one connection that ended:", daemon.disconnects, " streams left:", len(daemon.streaming_responses))
daemon.shutdown()
sys.exit(0 if daemon.disconnects == 1 else 1)
