import Pyro5.api as api
class O:
    @api.expose
    def f(self): return 1
d=api.Daemon()
o=O(); d.register(o,"first",weak=True)
try:
    d.register(o,"second"); print("C16 weak: second registration of same object accepted:", sorted(k for k in d.objectsById))
except Exception as e: print("refused:",e)
o2=O(); d.register(o2,"a")
try: d.register(o2,"b"); print("strong: accepted")
except Exception as e: print("strong: refused:",e)
d.close()
