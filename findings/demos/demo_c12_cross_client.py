import threading, Pyro5.api as api
from Pyro5 import config
config.SERVERTYPE="multiplex"
@api.expose
class T:
    def boom(self):
        api.current_context.response_annotations["LEAK"]=b"secret"
        raise ValueError("x")
    def ok(self): return 1
d=api.Daemon(); uri=d.register(T())
t=threading.Thread(target=d.requestLoop,daemon=True); t.start()
p=api.Proxy(uri)
try: p.boom()
except ValueError: pass
p2=api.Proxy(uri); p2._pyroBind()
print("OTHER client handshake annotations:", {k:bytes(v) for k,v in api.current_context.response_annotations.items()})
p2.ok(); print("OTHER client call annotations:", {k:bytes(v) for k,v in api.current_context.response_annotations.items()})
d.shutdown()
