# C02 triage (F18): a *normal call* request naming an unexposed property runs that property's getter before it is refused,
# because _get_attribute resolves the name with getattr(obj, attr) on the instance and only then looks at _pyroExposed.
from Pyro5 import server
log = []
class Vault:
    @server.expose
    def ok(self):
        return 1
    @property
    def secret(self):                 # NOT exposed
        log.append("secret-getter-ran")
        return "s3cret"
v = Vault()
for name in ("secret",):
    try:
        server._get_attribute(v, name)
        print("served", name)
    except AttributeError as x:
        print("refused:", x)
print("target code that ran for the refused request:", log)
