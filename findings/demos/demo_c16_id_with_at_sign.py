"""
F45 (C16): register(b, "user@example") succeeded, but the uri it returned ("PYRO:user@example@localhost:port") parses as object id "user":
calls through the daemon's own uri / proxyFor / auto-proxy for b reach whatever is registered as "user" (another object), or nothing.
After the repair the daemon refuses an id that does not survive its own uri form (DaemonError at register / uriFor), nothing is registered.
exit 1 = defect present.
"""
import sys
import threading
import Pyro5.server
import Pyro5.client
import Pyro5.errors


@Pyro5.server.expose
class Thing(object):
    def __init__(self, name):
        self.name = name

    def who(self):
        return self.name


daemon = Pyro5.server.Daemon(port=0)
a, b = Thing("a"), Thing("b")
daemon.register(a, "user")
bad = False
try:
    uri_b = daemon.register(b, "user@example")
except Pyro5.errors.DaemonError as x:
    print("register(b, 'user@example') refused:", x)
    if "user@example" in daemon.objectsById or hasattr(b, "_pyroId"):
        print("  ... but b was left registered")
        bad = True
else:
    threading.Thread(target=daemon.requestLoop, daemon=True).start()
    print("register(b, 'user@example') returned", uri_b, "-> object id in the uri:", repr(uri_b.object))
    try:
        with Pyro5.client.Proxy(uri_b) as p:
            print("a call through b's own uri was answered by:", p.who())
    except Exception as x:
        print("a call through b's own uri failed:", type(x).__name__, x)
    bad = True
# ordinary ids, including punctuation that does survive the uri form, keep working
for ok_id in ("plain", "with.dots-and_underscores", "semi;colon", "Pyro.Custom:obj"):
    u = daemon.register(Thing(ok_id), ok_id)
    if u.object != ok_id:
        bad = True
daemon.shutdown()
sys.exit(1 if bad else 0)
