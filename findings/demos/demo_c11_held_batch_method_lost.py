"""F39 (C11): a batched method object kept across a submission (`add = batch.add; add(1); batch(); add(2); batch()`) still appends to the OLD call list, because
BatchProxy.__call__ re-binds `self.__calls = []` instead of emptying the list the method objects hold: the second call is silently lost, the second batch is empty.
exit 0 = both batches run their call; exit 1 = defect reproduced."""
import os, sys, threading
sys.path.insert(0, os.environ.get("PYRO5_TREE", "/repo"))
import Pyro5.api, Pyro5.server
from Pyro5 import config


@Pyro5.api.expose
class Acc(object):
    def __init__(self):
        self.items = []

    def add(self, x):
        self.items.append(x)
        return len(self.items)

    def all(self):
        return list(self.items)


config.SERVERTYPE = "thread"
d = Pyro5.server.Daemon(port=0)
uri = d.register(Acc(), "acc")
threading.Thread(target=d.requestLoop, daemon=True).start()
with Pyro5.api.Proxy(uri) as p:
    batch = Pyro5.api.BatchProxy(p)
    add = batch.add
    add(1)
    first = list(batch())
    add(2)
    second = list(batch())
    final = p.all()
print("first batch results:", first, " second batch results:", second, " server state:", final)
d.shutdown()
sys.exit(0 if (first, second, final) == ([1], [2], [1, 2]) else 1)
