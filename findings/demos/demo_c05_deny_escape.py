import threading, time, socket, struct
import Pyro5.api as api
from Pyro5 import config
config.SERVERTYPE="thread"; config.THREADPOOL_SIZE=1; config.THREADPOOL_SIZE_MIN=1
@api.expose
class T:
    def ok(self): return 1
d=api.Daemon(); uri=d.register(T())
t=threading.Thread(target=d.requestLoop,daemon=True); t.start()
p=api.Proxy(uri); p._pyroBind()   # occupies the single worker
host,port=uri.host,uri.port
for i in range(20):
    s=socket.create_connection((host,port))
    s.sendall(b"GARBAGE-GARBAGE-GARBAGE")
    s.setsockopt(socket.SOL_SOCKET, socket.SO_LINGER, struct.pack("ii",1,0))
    s.close()
    time.sleep(0.05)
    if not t.is_alive(): break
time.sleep(0.5)
print("request loop alive after attack:", t.is_alive(), "attempts", i+1)
try:
    print("witness call:", p.ok())
except Exception as e: print("witness failed", repr(e))
