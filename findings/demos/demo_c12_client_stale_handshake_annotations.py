import threading, Pyro5.api as api
class D(api.Daemon):
    n=0
    def annotations(self):
        D.n+=1
        return {"HSHK": b"handshake-only"} if D.n==1 else {}
@api.expose
class T:
    def ok(self): return 1
d=D(); uri=d.register(T())
threading.Thread(target=d.requestLoop,daemon=True).start()
p=api.Proxy(uri)
p.ok()
print("after first call, client sees:", {k:bytes(v) for k,v in api.current_context.response_annotations.items()})
d.shutdown()
