"""
F44 (C16): register(a, "slot", weak=True); unregister("slot"); register(b, "slot")  - then `a` is garbage collected.
The finalizer installed for a's weak registration was `self.unregister("slot")`, unconditionally: it removed b's registration although b is
registered and was never unregistered (same with register(b, "slot", force=True) over the weak entry).
exit 1 = defect present.
"""
import gc
import sys
import Pyro5.server


@Pyro5.server.expose
class Thing(object):
    def __init__(self, name):
        self.name = name

    def who(self):
        return self.name


bad = False
daemon = Pyro5.server.Daemon(port=0)
for label, forced in (("unregister then register", False), ("forced re-registration", True)):
    a, b = Thing("a"), Thing("b")
    daemon.register(a, "slot", weak=True)
    if forced:
        daemon.register(b, "slot", force=True)
    else:
        daemon.unregister("slot")
        daemon.register(b, "slot")
    del a
    gc.collect()
    present = "slot" in daemon.objectsById and daemon.objectsById["slot"] is b
    print("%-26s after a was collected, b still registered under 'slot': %s" % (label, present))
    if not present:
        bad = True
    daemon.unregister("slot")
# the normal life cycle of a weak registration still ends with the object
c = Thing("c")
daemon.register(c, "weakling", weak=True)
del c
gc.collect()
print("weak registration ends with its object:", "weakling" not in daemon.objectsById)
if "weakling" in daemon.objectsById:
    bad = True
daemon.close()
sys.exit(1 if bad else 0)
