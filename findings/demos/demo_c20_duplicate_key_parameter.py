"""
F47 (C20): a gateway key is configured and a call request carries `$key` twice (`?$key=a&$key=b`). The parsed parameter is a list; the key check called
.encode() on it, outside any try: AttributeError escaped the WSGI application (a crash page of the web server) instead of the 403 the property promises for
every call request that does not present the configured key. No Pyro traffic in either case.
exit 1 = defect present.
"""
import sys
import io
from Pyro5.utils import httpgateway

httpgateway.pyro_app.gateway_key = b"secret"
httpgateway.pyro_app.ns_regex = r"http\."
traffic = []
httpgateway.get_nameserver = lambda *a, **kw: traffic.append("nameserver contacted") or (_ for _ in ()).throw(RuntimeError("no name server in this demo"))


def request(query, headers=None):
    environ = {"REQUEST_METHOD": "GET", "PATH_INFO": "/pyro/http.thing/method", "QUERY_STRING": query, "wsgi.input": io.BytesIO(b""), "SERVER_NAME": "x", "SERVER_PORT": "80"}
    environ.update(headers or {})
    status = []
    try:
        body = httpgateway.pyro_app(environ, lambda s, h: status.append(s))
        return status[0] if status else "no status", b"".join(body)[:60]
    except Exception as x:
        return "ESCAPED %s: %s" % (type(x).__name__, x), b""


bad = False
for label, q in (("$key twice, both wrong", "$key=a&$key=b"), ("$key twice, one right", "$key=secret&$key=b"), ("wrong key once", "$key=a"), ("no key", "x=1")):
    st, body = request(q)
    print("%-24s -> %s" % (label, st))
    if not st.startswith("403"):
        bad = True
print("pyro traffic:", traffic)
sys.exit(1 if bad or traffic else 0)
