"""
F43 (C14): the empty string is a legal name (register, lookup, list and count accept it) but NameServer.remove("") tested the name for
truthiness: it returned 0 and left the entry in place - on both back-ends. A simple map would have removed it and answered 1.
exit 1 = defect present.
"""
import os
import sys
import tempfile
from Pyro5.nameserver import NameServer, SqlStorage

bad = False
d = tempfile.mkdtemp()
from Pyro5.nameserver import MemoryStorage
for label, storage in (("memory", MemoryStorage()), ("sql", SqlStorage(os.path.join(d, "ns.sqlite")))):
    ns = NameServer(storage)
    ns.register("", "PYRO:nameless@localhost:1")
    ns.register("x", "PYRO:x@localhost:1")
    before = ns.count()
    n = ns.remove("")
    after = ns.count()
    still = "" in ns.list()
    print("%-6s remove('') -> %d, count %d -> %d, entry still listed: %s" % (label, n, before, after, still))
    if n != 1 or still or after != before - 1:
        bad = True
    # a name that is not there still answers 0 and removes nothing; the name server's own entry stays protected
    if ns.remove("") != 0 or ns.remove("nope") != 0 or ns.remove("Pyro.NameServer") != 0 or ns.count() != after:
        bad = True
    if isinstance(ns.storage, SqlStorage):
        ns.storage.close()
sys.exit(1 if bad else 0)
