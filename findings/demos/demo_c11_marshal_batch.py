# C11/C07/C01 triage (F19): with the marshal serializer every batch and every remote attribute access fails on the client,
# because MarshalSerializer.dumpsCall iterates kwargs, which the proxy passes as None for those two request kinds.
import sys, threading
from Pyro5 import server, client, config
config.SERVERTYPE = "thread"
@server.expose
class T:
    def __init__(self): self._v = 5
    def add(self, a, b): return a + b
    @property
    def value(self): return self._v
d = server.Daemon(port=0)
uri = d.register(T(), "t")
threading.Thread(target=d.requestLoop, daemon=True).start()
for ser in ("serpent", "marshal"):
    with client.Proxy(uri) as p:
        p._pyroSerializer = ser
        p._pyroTimeout = 5
        try:
            b = client.BatchProxy(p); b.add(1, 2); b.add(3, 4)
            print(ser, "batch ->", list(b()))
        except Exception as x:
            print(ser, "batch FAILED:", type(x).__name__, x)
        try:
            print(ser, "attribute ->", p.value)
        except Exception as x:
            print(ser, "attribute FAILED:", type(x).__name__, x)
d.shutdown()
