"""F38 (C12): a SerializedBlob call writes its BLBI annotation into the calling thread's own current_context.annotations dict; every later, unrelated call of that thread
(to any object, on any server) is sent with the blob's info/object id/method name, and the method serving it reads that in its call context.
exit 0 = later calls carry only the caller's own annotations; exit 1 = defect reproduced."""
import os, sys, threading
sys.path.insert(0, os.environ.get("PYRO5_TREE", "/repo"))
import Pyro5.api, Pyro5.server, Pyro5.client
from Pyro5 import config
from Pyro5.callcontext import current_context


@Pyro5.api.expose
class Thing(object):
    def blob(self, blob):
        return "blob ok"

    def seen(self):
        return sorted(current_context.annotations)


config.SERVERTYPE = "thread"
d = Pyro5.server.Daemon(port=0)
uri = d.register(Thing(), "thing")
threading.Thread(target=d.requestLoop, daemon=True).start()
current_context.annotations = {"MINE": b"x"}
with Pyro5.api.Proxy(uri) as p:
    before = p.seen()
    p.blob(Pyro5.client.SerializedBlob("some info", [1, 2, 3]))
    after = p.seen()
print("annotations served before the blob call:", before)
print("annotations served after  the blob call:", after)
print("caller's own dict now:", sorted(current_context.annotations))
d.shutdown()
sys.exit(0 if after == before == ["MINE"] and sorted(current_context.annotations) == ["MINE"] else 1)
