import threading, time
from Pyro5 import nameserver, config
from Pyro5.svr_threads import Pool
# C15: remove race
class SlowMem(nameserver.MemoryStorage):
    gate=None
    def __contains__(self,k):
        r=super().__contains__(k)
        g=SlowMem.gate
        if g is not None and threading.current_thread().name=="A":
            g.wait()
        return r
ns=nameserver.NameServer(SlowMem()); ns.register("x","PYRO:o@h:1")
SlowMem.gate=threading.Event(); res={}
def A():
    try: res["A"]=ns.remove(name="x")
    except Exception as e: res["A"]=repr(e)
ta=threading.Thread(target=A,name="A"); ta.start(); time.sleep(0.2)
def B():
    try: res["B"]=ns.remove(name="x")
    except Exception as e: res["B"]=repr(e)
tb=threading.Thread(target=B,name="B"); tb.start(); tb.join(1.0)   # with remove() fully locked B blocks here until A is released
SlowMem.gate.set(); ta.join(); tb.join()
print("C15 concurrent remove results:", res)
# C18: worker bound
config.THREADPOOL_SIZE=1; config.THREADPOOL_SIZE_MIN=1
class SlowSet(set):
    gate=threading.Event(); reached=threading.Event()
    def remove(self,x):
        super().remove(x); SlowSet.reached.set(); SlowSet.gate.wait()
p=Pool()
p.busy=SlowSet()
done=threading.Event()
p.process(lambda: None)       # worker runs job, then notify_done -> busy.remove pauses
SlowSet.reached.wait()
hold=threading.Event()
def second():
    try: p.process(lambda: hold.wait())  # accept thread: idle empty, num_workers()==0 <1 -> new worker
    except Exception as e: print("C18 second job:", repr(e))
t2=threading.Thread(target=second); t2.start(); t2.join(1.0)   # with the lock taken, process() waits for the finishing worker
SlowSet.gate.set(); t2.join(); time.sleep(0.3)
print("C18 workers with THREADPOOL_SIZE=1:", p.num_workers(), "busy",len(p.busy),"idle",len(p.idle))
hold.set(); p.close()
