"""F37 (C05, C13): an exception class whose __str__ raises.
 (1) multiplex server: a remote method raises an unserialisable Exception subclass whose __str__ raises -> the transport's catch-all handler builds its log text
     eagerly ("%s" % ex_v), raises inside the handler, the exception leaves events()/loop(): the daemon's request loop stops for every client.
 (2) both servers: the user's clientDisconnect hook raises such an exception -> `"Error in clientDisconnect: " + str(x)` raises inside the handler that is meant to
     contain the hook; on the thread server csock.close() is skipped, on the multiplex server unregister/close are skipped and the loop ends.
exit 0 = daemon survives / connection closed (fixed tree); exit 1 = defect reproduced."""
import os, sys, threading, time, socket
sys.path.insert(0, os.environ.get("PYRO5_TREE", "/repo"))
import Pyro5.api, Pyro5.server, Pyro5.errors
from Pyro5 import config


class Nasty(Exception):
    def __str__(self):
        raise Nasty("str of a nasty exception")


@Pyro5.api.expose
class Thing(object):
    def echo(self, x):
        return x

    def boom(self):
        cyc = []
        cyc.append(cyc)
        raise Nasty(cyc)


def run(servertype):
    config.SERVERTYPE = servertype
    config.COMMTIMEOUT = 2.0
    d = Pyro5.server.Daemon(port=0)
    uri = d.register(Thing(), "thing")
    t = threading.Thread(target=d.requestLoop, daemon=True)
    t.start()
    bad = False
    with Pyro5.api.Proxy(uri) as witness:
        assert witness.echo(1) == 1
        with Pyro5.api.Proxy(uri) as attacker:
            try:
                attacker.boom()
            except Exception as x:
                print(servertype, "attacker sees", type(x).__name__)
        time.sleep(0.3)
        try:
            assert witness.echo(2) == 2
            with Pyro5.api.Proxy(uri) as fresh:
                assert fresh.echo(3) == 3
            print(servertype, "daemon survived the call")
        except Exception as x:
            print(servertype, "DAEMON DEAD after the call:", type(x).__name__, x)
            bad = True
    alive = t.is_alive()
    d.shutdown()
    return bad or not alive


def run_hook(servertype):
    config.SERVERTYPE = servertype
    config.COMMTIMEOUT = 2.0
    closed = []

    class D(Pyro5.server.Daemon):
        def clientDisconnect(self, conn):
            orig = conn.close
            def close():
                closed.append(1)
                orig()
            conn.close = close
            raise Nasty("hook")
    d = D(port=0)
    uri = d.register(Thing(), "thing")
    t = threading.Thread(target=d.requestLoop, daemon=True)
    t.start()
    with Pyro5.api.Proxy(uri) as p:
        assert p.echo(1) == 1
    time.sleep(0.5)
    ok = True
    try:
        with Pyro5.api.Proxy(uri) as p:
            assert p.echo(2) == 2
    except Exception as x:
        print(servertype, "hook: DAEMON DEAD after a disconnect:", type(x).__name__)
        ok = False
    if not closed:
        print(servertype, "hook: the ended connection was never closed")
        ok = False
    else:
        print(servertype, "hook: connection closed, daemon alive")
    d.shutdown()
    return not ok


if __name__ == "__main__":
    import logging
    logging.basicConfig(level=logging.WARNING, stream=open(os.devnull, "w"))
    bad = False
    for st in ("multiplex", "thread"):
        bad |= run(st)
        bad |= run_hook(st)
    sys.exit(1 if bad else 0)
