"""
F42 (C10): `for x in proxy` - the remote __iter__ is a generator that raises AttributeError midway.
Proxy.__iter__ wrapped the whole `yield from <remote iterator>` in `try ... except AttributeError` (meant for "the remote object has no
__iter__"): the generator's own AttributeError was swallowed and the client silently restarted with index based iteration from index 0 -
items repeated, the generator's exception not re-raised.
exit 1 = defect present, exit 0 = the loop delivers a, b and then raises the generator's AttributeError.
"""
import sys
import threading
import Pyro5.server
import Pyro5.client


@Pyro5.server.expose
class Source(object):
    items = ["a", "b", "c", "d"]

    def __iter__(self):
        yield self.items[0]
        yield self.items[1]
        raise AttributeError("bug inside the server side generator")

    def __getitem__(self, index):
        return self.items[index]


@Pyro5.server.expose
class Indexed(object):
    """no remote __iter__: the index based fall-back must keep working"""
    def __getitem__(self, index):
        return ["x", "y", "z"][index]


daemon = Pyro5.server.Daemon(port=0)
uri = daemon.register(Source(), "source")
uri2 = daemon.register(Indexed(), "indexed")
threading.Thread(target=daemon.requestLoop, daemon=True).start()
bad = False
with Pyro5.client.Proxy(uri) as p:
    got, raised = [], None
    try:
        for x in p:
            got.append(x)
    except Exception as x:
        raised = x
    print("items:", got, " raised:", type(raised).__name__ if raised else None)
    if got != ["a", "b"] or not isinstance(raised, AttributeError):
        bad = True
with Pyro5.client.Proxy(uri2) as p:
    got = [x for x in p]
    print("index based fall-back:", got)
    if got != ["x", "y", "z"]:
        bad = True
daemon.shutdown()
sys.exit(1 if bad else 0)
