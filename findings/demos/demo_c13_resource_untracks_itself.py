"""F41 (C13, C05): a tracked resource whose close() untracks itself (a natural thing for a resource to do) changes the WeakSet that SocketConnection.close() is
iterating: RuntimeError("Set changed size during iteration") leaves close() - the remaining resources of that connection are never closed, and on the multiplex
server the exception leaves events()/loop(): the daemon stops serving everybody.
exit 0 = all resources closed once and the daemon still serves; exit 1 = defect reproduced."""
import os, sys, threading, time
sys.path.insert(0, os.environ.get("PYRO5_TREE", "/repo"))
import Pyro5.api, Pyro5.server
from Pyro5 import config
from Pyro5.callcontext import current_context

closed = []


class Res(object):
    def __init__(self, n):
        self.n = n

    def close(self):
        closed.append(self.n)
        try:
            current_context.untrack_resource(self)      # "I am closed, stop tracking me"
        except Exception:
            pass


@Pyro5.api.expose
class Thing(object):
    keep = []

    def grab(self, count):
        for i in range(count):
            r = Res(i)
            Thing.keep.append(r)
            current_context.track_resource(r)
        return count

    def ping(self):
        return "pong"


def run(servertype):
    del closed[:]
    del Thing.keep[:]
    config.SERVERTYPE = servertype
    config.COMMTIMEOUT = 2.0
    d = Pyro5.server.Daemon(port=0)
    uri = d.register(Thing, "thing")
    t = threading.Thread(target=d.requestLoop, daemon=True)
    t.start()
    with Pyro5.api.Proxy(uri) as p:
        p.grab(5)
    time.sleep(0.5)
    ok = sorted(closed) == [0, 1, 2, 3, 4]
    try:
        with Pyro5.api.Proxy(uri) as p2:
            alive = p2.ping() == "pong"
    except Exception as x:
        alive = False
    print(servertype, "resources closed:", sorted(closed), " daemon still serving:", alive)
    d.shutdown()
    return ok and alive


if __name__ == "__main__":
    import logging
    logging.basicConfig(level=logging.ERROR, stream=open(os.devnull, "w"))
    good = True
    for st in ("thread", "multiplex"):
        good &= run(st)
    sys.exit(0 if good else 1)
