import Pyro5.api as api, Pyro5.server as server, Pyro5.socketutil as su
from Pyro5 import nameserver, core
import os, tempfile
# C09 falsy instance in single mode
created=[]
@api.expose
@api.behavior(instance_mode="single")
class Bag(list):
    def __init__(self): created.append(1)
    def ping(self): return 1
class FakeConn: pyroInstances={}
d=server.Daemon.__new__(server.Daemon)
import threading
d._pyroInstances={}; d.create_single_instance_lock=threading.Lock()
a=d._getInstance(Bag,FakeConn()); b=d._getInstance(Bag,FakeConn())
print("C09 single falsy: same instance?", a is b, "created", len(created))
# C14 sql LIKE
fn=tempfile.mktemp()
ns_m=nameserver.NameServer(nameserver.MemoryStorage()); ns_s=nameserver.NameServer(nameserver.SqlStorage(fn))
for ns in (ns_m,ns_s):
    ns.register("ab_c","PYRO:x@h:1"); ns.register("abXc","PYRO:x@h:1"); ns.register("ABxc","PYRO:x@h:1")
print("C14 prefix 'ab_':", sorted(ns_m.list(prefix="ab_")), sorted(ns_s.list(prefix="ab_")))
print("C14 remove prefix 'ab_':", ns_m.remove(prefix="ab_"), ns_s.remove(prefix="ab_"))
# yplookup dup
for ns in (ns_m,ns_s):
    ns.register("m","PYRO:x@h:1",metadata=["a","b"])
print("C14 yplookup meta_all dup:", sorted(ns_m.yplookup(meta_all=["a","a"])), sorted(ns_s.yplookup(meta_all=["a","a"])))
print("C14 remove absent name:", ns_m.remove(name="zz"), ns_s.remove(name="zz"))
os.remove(fn)
