import threading, Pyro5.api as api
from Pyro5 import config
import sys
config.SERVERTYPE=sys.argv[1]
@api.expose
class T:
    def boom(self):
        api.current_context.response_annotations["LEAK"]=b"secret"
        raise ValueError("x")
    def ok(self): return 1
d=api.Daemon(); uri=d.register(T())
t=threading.Thread(target=d.requestLoop,daemon=True); t.start()
p=api.Proxy(uri)
try: p.boom()
except ValueError: print("boom reply annotations:", dict(api.current_context.response_annotations))
p.ok(); print("same client next call annotations:", {k:bytes(v) for k,v in api.current_context.response_annotations.items()})
p2=api.Proxy(uri); p2._pyroBind()
print("other client handshake annotations:", {k:bytes(v) for k,v in api.current_context.response_annotations.items()})
d.shutdown()
