import sys, os
sys.path.insert(0, os.getcwd())
import socket, threading, time
from Pyro5 import config, protocol, serializers, server, errors

config.POLLTIMEOUT = 0.2
MARSHAL = serializers.MarshalSerializer.serializer_id
ser = serializers.serializers_by_id[MARSHAL]


def probe(exc, servertype="thread"):
    config.SERVERTYPE = servertype

    class D(server.Daemon):
        def validateHandshake(self, conn, data):
            raise exc

    d = D(host="127.0.0.1", port=0)
    t = threading.Thread(target=d.requestLoop, daemon=True)
    t.start()
    time.sleep(0.2)
    host, port = d.locationStr.split(":")
    s = socket.create_connection((host, int(port)), timeout=3)
    s.settimeout(3)
    payload = ser.dumps({"handshake": "x", "object": "Pyro.Daemon"})
    s.sendall(protocol.SendingMessage(protocol.MSG_CONNECT, 0, 1, MARSHAL, payload).data)
    try:
        data = s.recv(4096)
        if not data:
            result = "connection closed, NO connect-failure message"
        else:
            result = "reply msg type %d" % data[6]
    except socket.timeout:
        result = "NO reply and connection still open after 3s"
    except ConnectionResetError:
        result = "connection reset, NO connect-failure message"
    s.close()
    alive = t.is_alive()
    try:
        d.shutdown()
    except Exception:
        pass
    t.join(timeout=3)
    print("%-9s validator raises %-45r -> %s (daemon loop alive afterwards: %s)" % (servertype, exc, result, alive))


probe(ValueError("nope"))
probe(errors.ConnectionClosedError("go away"))
probe(SystemExit("bye"))
probe(errors.ConnectionClosedError("go away"), "multiplex")
probe(SystemExit("bye"), "multiplex")
sys.stdout.flush()
os._exit(0)
