import sys, os
sys.path.insert(0, os.getcwd())
import threading, time, socket
from Pyro5 import config, svr_threads, errors
import Pyro5.server, Pyro5.client

config.THREADPOOL_SIZE_MIN = 1
config.THREADPOOL_SIZE = 1
config.POLLTIMEOUT = 0.2

# --- 1: a job that ends with a BaseException (sys.exit() in an exposed method) kills the worker
#        thread without notify_done: the dead worker stays in pool.busy for ever.
@Pyro5.server.expose
class Thing(object):
    def hello(self):
        return "hi"
    def quit(self):
        sys.exit(0)

threading.excepthook = lambda a: None
d = Pyro5.server.Daemon(host="127.0.0.1", port=0)
uri = d.register(Thing(), "thing")
threading.Thread(target=d.requestLoop, daemon=True).start()
time.sleep(0.2)
p = Pyro5.client.Proxy(uri); p._pyroTimeout = 3
try:
    p.quit()
except Exception as x:
    print("1: quit() ->", type(x).__name__)
p._pyroRelease()
time.sleep(0.3)
pool = d.transportServer.pool
print("1: busy=%d idle=%d, live worker threads=%d" % (len(pool.busy), len(pool.idle),
      sum(1 for t in threading.enumerate() if t.name.startswith("Pyro-Worker"))))
q = Pyro5.client.Proxy(uri); q._pyroTimeout = 3
try:
    q.hello(); print("1: new client served")
except Exception as x:
    print("1: new client, with no connection open at all ->", x)

# --- 2: pool full + default COMMTIMEOUT=0: a refused client that sends nothing blocks the accept loop
#        inside denyConnection (recv of the CONNECT message has no timeout); later clients are left waiting.
config.THREADPOOL_SIZE = 1
d2 = Pyro5.server.Daemon(host="127.0.0.1", port=0)
uri2 = d2.register(Thing(), "thing")
threading.Thread(target=d2.requestLoop, daemon=True).start()
time.sleep(0.2)
a = Pyro5.client.Proxy(uri2); a._pyroTimeout = 3; a.hello()      # occupies the only worker
silent = socket.create_connection(("127.0.0.1", int(d2.locationStr.split(":")[1])), timeout=3)
time.sleep(0.5)
a._pyroRelease()                                                  # worker is free again
time.sleep(0.3)
b = Pyro5.client.Proxy(uri2); b._pyroTimeout = 2
try:
    b.hello(); print("2: later client served")
except Exception as x:
    print("2: worker idle=%d, but later client ->" % len(d2.transportServer.pool.idle), type(x).__name__, x)
sys.stdout.flush()
os._exit(0)
