import sys, os; sys.path.insert(0, os.getcwd())
"""Clean-tree corners of C03 (not seeded changes). Run from the worktree root on the CLEAN tree."""
import threading, socket, time, collections
threading.Timer(40, lambda: os._exit(2)).start()
import Pyro5.api, Pyro5.client, Pyro5.server, Pyro5.errors

runs = collections.Counter()


@Pyro5.api.expose
class Svc(object):
    def work(self, token, delay=0.0):
        runs[token] += 1
        time.sleep(delay)
        return token


# (1) MAX_RETRIES=1: reply delayed past the timeout -> the call RETURNS, but its method ran twice
daemon = Pyro5.server.Daemon(host="127.0.0.1", port=0)
uri = daemon.register(Svc(), "svc")
threading.Thread(target=daemon.requestLoop, daemon=True).start()
delays = iter([1.0, 0.0])


@Pyro5.api.expose
class Flaky(object):
    def work(self, token):
        runs[token] += 1
        time.sleep(next(delays))
        return token


furi = daemon.register(Flaky(), "flaky")
p = Pyro5.client.Proxy(furi)
p._pyroTimeout = 0.4
p._pyroMaxRetries = 1
r = p.work("retry-token")
time.sleep(1.0)
print("(1) MAX_RETRIES=1: call returned %r, server ran the method %d times" % (r, runs["retry-token"]))
p._pyroRelease()

# (2) connected_socket proxy: one timeout and the proxy is dead for good although the socket/daemon are healthy
s1, s2 = socket.socketpair()
d2 = Pyro5.server.Daemon(connected_socket=s1)
d2.register(Svc(), "svc")
threading.Thread(target=d2.requestLoop, daemon=True).start()
p2 = Pyro5.client.Proxy("svc", connected_socket=s2)
p2._pyroTimeout = 0.4
try:
    p2.work("slow", 0.8)
except Pyro5.errors.TimeoutError as x:
    print("(2) first call:", type(x).__name__)
time.sleep(1.0)   # server has long finished, transport is idle and healthy
try:
    print("(2) next call:", p2.work("fast"))
except Exception as x:
    print("(2) next call on the same proxy: %s: %s" % (type(x).__name__, x))
sys.stdout.flush()
os._exit(0)
