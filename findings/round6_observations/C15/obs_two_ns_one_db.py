import sys, os; sys.path.insert(0, os.getcwd())
# CLEAN-TREE observation (unusual deployment): two name servers on the same sqlite file (e.g. one daemon on TCP and
# one on a unix socket, or two processes).  NameServer.lock is per instance and the safe-register check and the insert
# are two separate sqlite transactions, so both safe registrations of one name succeed.
import tempfile, threading, shutil
from Pyro5.nameserver import NameServer, SqlStorage
from Pyro5.errors import NamingError

checked = threading.Barrier(2, timeout=10)
class PausingSql(SqlStorage):
    def __contains__(self, item):
        r = SqlStorage.__contains__(self, item)
        if item == "svc":
            checked.wait()      # both servers have done their membership test before either inserts
        return r

d = tempfile.mkdtemp()
f = os.path.join(d, "shared.sqlite")
servers = [NameServer(PausingSql(f)), NameServer(PausingSql(f))]
out = {}
def client(i):
    try:
        servers[i].register("svc", "PYRO:svc@host%d:1" % i, safe=True); out[i] = "ok"
    except NamingError as x:
        out[i] = "NamingError: %s" % x
ts = [threading.Thread(target=client, args=(i,), daemon=True) for i in range(2)]
[t.start() for t in ts]; [t.join(15) for t in ts]
print(out, "->", servers[0].lookup("svc"))
shutil.rmtree(d, ignore_errors=True)
