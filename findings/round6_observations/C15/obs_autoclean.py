import sys, os; sys.path.insert(0, os.getcwd())
# CLEAN-TREE observation: the AutoCleaner probes the uri it saw in an earlier listing and then removes *by name*.
# A server that re-registers (new, reachable uri) between the listing/probe and the removal loses its fresh registration.
import socket, threading, time
import Pyro5.nameserver as nsmod
from Pyro5 import config, socketutil
from Pyro5.errors import NamingError

config.NS_AUTOCLEAN = 0.2
nsmod.AutoCleaner.override_autoclean_min = True
nsmod.AutoCleaner.max_unreachable_time = 0.5
nsmod.AutoCleaner.loop_delay = 0.1

ns = nsmod.NameServer()
live = socket.socket(); live.bind(("127.0.0.1", 0)); live.listen(5)
dead = socket.socket(); dead.bind(("127.0.0.1", 0)); dead_port = dead.getsockname()[1]; dead.close()
ns.register("svc", "PYRO:obj@127.0.0.1:%d" % dead_port)

probing = threading.Event(); go_on = threading.Event()
real_create = socketutil.create_socket
first = time.time()
def slow_create(*a, **kw):
    # when the grace period has passed, hold the probe (as a slow connect timeout would) so the owner can re-register
    since = cleaner.unreachable.get("svc")
    if since and time.time() - since >= cleaner.max_unreachable_time and not probing.is_set():
        probing.set(); go_on.wait(10)
    return real_create(*a, **kw)
socketutil.create_socket = slow_create

cleaner = nsmod.AutoCleaner(ns); cleaner.start()
assert probing.wait(15)
new_uri = "PYRO:obj@127.0.0.1:%d" % live.getsockname()[1]
ns.register("svc", new_uri)          # the restarted server re-registers, reachable now; this call has completed
go_on.set()
time.sleep(1.0)
cleaner.stop = True; cleaner.join(5)
socketutil.create_socket = real_create
try:
    print("lookup after re-registration:", ns.lookup("svc"))
    print("no race")
except NamingError as x:
    print("registration of the live, re-registered server was removed by the autocleaner:", x)
