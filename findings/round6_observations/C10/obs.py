import sys, os; sys.path.insert(0, os.getcwd())
import threading, time
import Pyro5.server, Pyro5.client, Pyro5.errors
from Pyro5 import config


@Pyro5.server.expose
class Seq(object):
    def __init__(self):
        self.data = [10, 11, 12, 13]
    def __iter__(self):
        def gen():
            yield self.data[0]
            yield self.data[1]
            raise AttributeError("oops, server side bug midway")
        return gen()
    def __getitem__(self, i):
        return self.data[i]
    def __len__(self):
        return len(self.data)
    def numbers(self):
        for i in range(10):
            yield i


def obs_iter_fallback(uri):
    with Pyro5.client.Proxy(uri) as p:
        p._pyroTimeout = 5
        try:
            got = list(p)
        except Exception as x:
            got = "raised %r" % x
        print("OBS1 for-loop over proxy whose remote __iter__ generator raises AttributeError after 2 items ->", got)


def obs_linger_tick(uri, daemon):
    # threaded server: housekeeper thread ticks every min(POLLTIMEOUT, 5) = 2 s
    config.ITER_STREAM_LINGER = 0.2
    hits = 0
    for attempt in range(4):
        p = Pyro5.client.Proxy(uri)
        p._pyroTimeout = 5
        g = p.numbers()
        assert next(g) == 0
        p._pyroRelease()
        time.sleep(0.7)      # 3.5 x the linger period
        p._pyroReconnect(tries=1)
        try:
            item = next(g)
            hits += 1
            print("OBS2 attempt %d: came back after 3.5x linger and still got item %r" % (attempt, item))
        except Pyro5.errors.PyroError as x:
            print("OBS2 attempt %d: error (expected): %s" % (attempt, x))
        g.close()
        p._pyroRelease()
    config.ITER_STREAM_LINGER = 30.0
    print("OBS2 late items delivered in %d of 4 attempts" % hits)


def obs_combined():
    config.SERVERTYPE = "multiplex"
    config.POLLTIMEOUT = 0.2
    config.ITER_STREAM_LINGER = 0.2
    d1 = Pyro5.server.Daemon(host="127.0.0.1", port=0)
    d2 = Pyro5.server.Daemon(host="127.0.0.1", port=0)
    uri2 = d2.register(Seq(), "seq2")
    d1.combine(d2)
    t = threading.Thread(target=d1.requestLoop, daemon=True)
    t.start()
    p = Pyro5.client.Proxy(uri2)
    p._pyroTimeout = 5
    g = p.numbers()
    next(g)
    p._pyroRelease()
    time.sleep(2.0)   # 10 x linger, 10 x polltimeout
    print("OBS3 combined daemon: streams still registered in the second daemon 2s after its client left (linger 0.2s):", len(d2.streaming_responses))
    d1.shutdown()
    t.join(5)
    d2.close()
    config.SERVERTYPE = "thread"
    config.POLLTIMEOUT = 2.0
    config.ITER_STREAM_LINGER = 30.0


def main():
    config.SERVERTYPE = "thread"
    daemon = Pyro5.server.Daemon(host="127.0.0.1", port=0)
    uri = daemon.register(Seq(), "seq")
    t = threading.Thread(target=daemon.requestLoop, daemon=True)
    t.start()
    try:
        obs_iter_fallback(uri)
        obs_linger_tick(uri, daemon)
    finally:
        daemon.shutdown()
        t.join(5)
    obs_combined()

main()
