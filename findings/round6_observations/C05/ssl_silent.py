import sys, os; sys.path.insert(0, os.getcwd())
# clean-tree observation: SSL daemon (either server type), COMMTIMEOUT configured: the TLS handshake is done inside accept()
# on the request-loop thread with a socket that has no timeout, so ONE plain-TCP client that connects and sends nothing
# parks the whole accept loop (thread server) / whole daemon (multiplex) for as long as it stays connected.
import threading, time, socket, ssl
from Pyro5 import config, server, protocol, serializers, socketutil, core
config.SERVERTYPE = sys.argv[1] if len(sys.argv) > 1 else "thread"
config.POLLTIMEOUT = 0.3; config.COMMTIMEOUT = 1.0
config.SSL = True
config.SSL_SERVERCERT = os.path.join(os.getcwd(), "certs", "server_cert.pem")
config.SSL_SERVERKEY = os.path.join(os.getcwd(), "certs", "server_key.pem")

d = server.Daemon(host="127.0.0.1", port=0)
addr = ("127.0.0.1", int(d.locationStr.split(":")[1]))
t = threading.Thread(target=d.requestLoop, daemon=True); t.start(); time.sleep(0.3)

def tls_client():
    ctx = ssl.SSLContext(ssl.PROTOCOL_TLS_CLIENT); ctx.check_hostname = False; ctx.verify_mode = ssl.CERT_NONE
    raw = socket.create_connection(addr, timeout=4); raw.settimeout(4)
    s = ctx.wrap_socket(raw); s.settimeout(4)
    conn = socketutil.SocketConnection(s)
    ser = serializers.serializers["marshal"]
    conn.send(protocol.SendingMessage(protocol.MSG_CONNECT, 0, 0, ser.serializer_id, ser.dumps({"handshake": "hello", "object": core.DAEMON_NAME})).data)
    protocol.recv_stub(conn, [protocol.MSG_CONNECTOK])
    return conn

c = tls_client(); print("first TLS client connected fine"); c.close()
silent = socket.create_connection(addr, timeout=4)      # plain TCP, sends nothing, stays open
time.sleep(3 * config.COMMTIMEOUT)
try:
    tls_client(); print("fresh TLS client connected fine")
except Exception as x:
    print("fresh TLS client FAILED %.0fs after the silent one connected (COMMTIMEOUT=%.0fs): %s %s" % (3*config.COMMTIMEOUT, config.COMMTIMEOUT, type(x).__name__, x))
sys.stdout.flush(); os._exit(0)
