import sys, os; sys.path.insert(0, os.getcwd())
# clean-tree observation: thread server, no COMMTIMEOUT: when the pool is full, ONE silent extra connection
# parks the accept loop inside denyConnection()->_handshake()->recv; nobody can connect any more, even after workers are free again
import threading, time, socket
from Pyro5 import config, server, client
config.SERVERTYPE = "thread"; config.POLLTIMEOUT = 0.3; config.COMMTIMEOUT = 0.0
config.THREADPOOL_SIZE = 2; config.THREADPOOL_SIZE_MIN = 1

@server.expose
class Thing(object):
    def echo(self, v): return v

d = server.Daemon(host="127.0.0.1", port=0)
uri = d.register(Thing(), "thing")
t = threading.Thread(target=d.requestLoop, daemon=True); t.start(); time.sleep(0.3)
w = client.Proxy(uri); w._pyroTimeout = 3; w.echo(1)
other = client.Proxy(uri); other._pyroTimeout = 3; other.echo(1)     # pool (size 2) is full now
silent = socket.create_connection(("127.0.0.1", uri.port), timeout=3)   # sends nothing, stays open
time.sleep(0.5)
other._pyroRelease(); time.sleep(0.5)                                   # a worker is free again
pool = d.transportServer.pool
print("busy=%d idle=%d" % (len(pool.busy), len(pool.idle)))
fresh = client.Proxy(uri); fresh._pyroTimeout = 3
try:
    print("fresh client:", fresh.echo(2))
except Exception as x:
    print("fresh client FAILED:", type(x).__name__, x)
print("witness still served:", w.echo(3))
sys.stdout.flush(); os._exit(0)
