import sys, os; sys.path.insert(0, os.getcwd())
# clean-tree observation: multiplex request loop dies when a @callback method raises an exception whose __str__ raises
import threading, time
from Pyro5 import config, server, client
config.SERVERTYPE = sys.argv[1] if len(sys.argv) > 1 else "multiplex"
config.POLLTIMEOUT = 0.3

class Weird(Exception):
    def __str__(self):
        raise RuntimeError("no str for you")

@server.expose
class Thing(object):
    @server.callback
    def boom(self):
        raise Weird("x")
    def echo(self, v):
        return v

d = server.Daemon(host="127.0.0.1", port=0)
uri = d.register(Thing(), "thing")
res = []
def loop():
    try:
        d.requestLoop(); res.append("returned")
    except BaseException as x:
        res.append("died: %s: %s" % (type(x).__name__, x))
t = threading.Thread(target=loop, daemon=True); t.start(); time.sleep(0.3)
w = client.Proxy(uri); w._pyroTimeout = 3; print("witness before:", w.echo(1))
h = client.Proxy(uri); h._pyroTimeout = 3
try:
    h.boom()
except Exception as x:
    print("caller got:", type(x).__name__)
time.sleep(0.5)
print("loop alive:", t.is_alive(), res)
try:
    print("witness after:", w.echo(2))
except Exception as x:
    print("witness after FAILED:", type(x).__name__, x)
sys.stdout.flush(); os._exit(0)
