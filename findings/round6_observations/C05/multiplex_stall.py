import sys, os; sys.path.insert(0, os.getcwd())
# clean-tree observation: multiplex server without COMMTIMEOUT: a connection that sends 3 bytes and then stays silent
# parks the single request-loop thread in recv (handshake is read synchronously) -> no other client is served.
import threading, time, socket
from Pyro5 import config, server, client
config.SERVERTYPE = "multiplex"; config.POLLTIMEOUT = 0.3; config.COMMTIMEOUT = 0.0

@server.expose
class Thing(object):
    def echo(self, v): return v

d = server.Daemon(host="127.0.0.1", port=0)
uri = d.register(Thing(), "thing")
t = threading.Thread(target=d.requestLoop, daemon=True); t.start(); time.sleep(0.3)
w = client.Proxy(uri); w._pyroTimeout = 3; print("witness before:", w.echo(1))
h = socket.create_connection(("127.0.0.1", uri.port), timeout=3); h.sendall(b"PYR")
time.sleep(0.5)
try:
    print("witness after:", w.echo(2))
except Exception as x:
    print("witness after FAILED:", type(x).__name__, x)
sys.stdout.flush(); os._exit(0)
