import sys, os; sys.path.insert(0, os.getcwd())
import gc, threading
import Pyro5, Pyro5.server, Pyro5.client, Pyro5.errors, Pyro5.core
from Pyro5 import config
print(Pyro5.__file__)
config.COMMTIMEOUT = 5

@Pyro5.server.expose
class Thing:
    def __init__(self, name): self.name = name; self.log = []
    def hit(self, x): self.log.append(x); return self.name

d = Pyro5.server.Daemon(host="127.0.0.1")
t = threading.Thread(target=d.requestLoop, daemon=True); t.start()

# obs 1: finalizer of weak registration removes later registration under same id
a = Thing("a"); b = Thing("b")
d.register(a, "x", weak=True)
d.unregister("x")
d.register(b, "x")
del a; gc.collect()
print("obs1: 'x' still registered after GC of a:", "x" in d.objectsById)

# obs 2: unregister(a) after forced replacement removes b
a = Thing("a"); b = Thing("b")
d.register(a, "y"); d.register(b, "y", force=True)
d.unregister(a)
print("obs2: 'y' still registered:", "y" in d.objectsById)

# obs 3: uriFor stale object
a = Thing("a"); b = Thing("b")
d.register(a, "z"); d.unregister("z"); d.register(b, "z")
try:
    print("obs3: uriFor(a) ->", d.uriFor(a))
except Exception as e: print("obs3 raises", e)

# obs 4: id with '@'
c = Thing("c")
u = d.register(c, "me@home")
print("obs4:", u, u.object, u.host)
# obs 5: id with whitespace
e = Thing("e")
try:
    d.register(e, "my id")
except Exception as x:
    print("obs5 raised", x, "registered anyway:", "my id" in d.objectsById)
d.shutdown()
