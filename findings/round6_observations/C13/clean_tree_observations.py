import sys, os; sys.path.insert(0, os.getcwd())
# Corners in which the UNCHANGED library does not keep the C13 property.  Prints what it observes; always exits 0.
import socket
import threading
import time
import Pyro5.api
import Pyro5.server
import Pyro5.client
from Pyro5 import config
from Pyro5.callcontext import current_context


def watchdog():
    time.sleep(50)
    print("watchdog")
    os._exit(0)


threading.Thread(target=watchdog, daemon=True).start()
CLOSED = []


class Resource(object):
    def __init__(self, name):
        self.name = name

    def close(self):
        CLOSED.append(self.name)


class EqResource(Resource):
    def __eq__(self, other):
        return isinstance(other, EqResource)

    def __hash__(self):
        return 1


class SelfUntrackingResource(Resource):
    def close(self):
        CLOSED.append(self.name)
        current_context.untrack_resource(self)


KEEP = []


@Pyro5.api.expose
class SessionService(object):    # instance_mode session (default)
    def __init__(self):
        self.mine = []

    def allocate_owned(self, name):
        r = Resource(name)
        self.mine.append(r)          # the session instance is the only owner
        current_context.track_resource(r)

    def allocate_equal(self, name):
        r = EqResource(name)
        KEEP.append(r)
        current_context.track_resource(r)

    def allocate_selfuntrack(self, name):
        r = SelfUntrackingResource(name)
        KEEP.append(r)
        current_context.track_resource(r)


class HookDaemon(Pyro5.server.Daemon):
    hooks = 0

    def clientDisconnect(self, conn):
        HookDaemon.hooks += 1


def run(servertype):
    print("==== server type", servertype)
    config.SERVERTYPE = servertype
    config.POLLTIMEOUT = 0.2
    d = HookDaemon(host="127.0.0.1")
    uri = d.register(SessionService, "svc")
    errors = []

    def loop():
        try:
            d.requestLoop()
        except BaseException as x:
            errors.append(x)
    t = threading.Thread(target=loop, daemon=True)
    t.start()
    time.sleep(0.1)

    del CLOSED[:]
    with Pyro5.client.Proxy(uri) as p:
        p._pyroTimeout = 4
        p.allocate_owned("owned-1")
        p.allocate_owned("owned-2")
    time.sleep(0.4)
    print("O1 resources owned only by the session instance, closed after disconnect:", CLOSED, "(2 were tracked)")

    del CLOSED[:]
    with Pyro5.client.Proxy(uri) as p:
        p._pyroTimeout = 4
        p.allocate_equal("eq-1")
        p.allocate_equal("eq-2")
    time.sleep(0.4)
    print("O2 two distinct resources that compare equal, closed after disconnect:", CLOSED, "(2 were tracked)")

    del CLOSED[:]
    with Pyro5.client.Proxy(uri) as p:
        p._pyroTimeout = 4
        for i in range(4):
            p.allocate_selfuntrack("su-%d" % i)
    time.sleep(0.4)
    print("O3 four resources whose close() untracks itself, closed after disconnect:", sorted(CLOSED), "(4 were tracked)")
    print("   request loop alive:", t.is_alive(), "loop errors:", errors)
    if t.is_alive():
        try:
            with Pyro5.client.Proxy(uri) as p:
                p._pyroTimeout = 4
                p._pyroBind()
            print("   daemon still accepts connections")
        except Exception as x:
            print("   daemon no longer usable:", repr(x))
    try:
        d.shutdown()
    except Exception:
        pass


def existing_conn():
    print("==== existing-connection server (Daemon(connected_socket=...))")
    del CLOSED[:]
    HookDaemon.hooks = 0
    s1, s2 = socket.socketpair()
    d = HookDaemon(connected_socket=s1)
    d.register(SessionService, "svc")
    t = threading.Thread(target=d.requestLoop, daemon=True)
    t.start()
    p = Pyro5.client.Proxy("svc", connected_socket=s2)
    p._pyroTimeout = 4
    p.allocate_equal("x-1")
    p._pyroRelease()
    s2.close()
    t.join(4)
    time.sleep(0.3)
    print("O4 loop ended:", not t.is_alive(), " disconnect hook calls:", HookDaemon.hooks, " resources closed:", CLOSED)


run("thread")
run("multiplex")
existing_conn()
sys.stdout.flush()
os._exit(0)
