import sys, os; sys.path.insert(0, os.getcwd())
# CLEAN-TREE observations for C01 (unchanged library). Prints what it finds, always exits 0.
import datetime, threading
import Pyro5, Pyro5.api, Pyro5.client
from Pyro5 import serializers

# 1. msgpack: datetime travels as a double timestamp -> microseconds are lost for far dates,
#    and the last representable datetimes do not decode at all.
m = serializers.serializers["msgpack"]
for dt in (datetime.datetime(2024, 5, 5, 1, 2, 3, 123457), datetime.datetime(2500, 1, 1, 0, 0, 0, 1),
           datetime.datetime(3000, 5, 5, 1, 2, 3, 123457), datetime.datetime(9999, 12, 31, 23, 59, 59, 999999)):
    try:
        back = m.loads(m.dumps(dt))
        print("msgpack datetime", dt, "->", back, "OK" if back == dt else "CHANGED")
    except Exception as x:
        print("msgpack datetime", dt, "->", type(x).__name__, x)

# 2. SerializedBlob.deserialized() under json returns the string "params" instead of the data
#    (it tuple-unpacks the dict that JsonSerializer.loads returns for a call message).
@Pyro5.api.expose
class T(object):
    def blob(self, blob):
        return blob.info, blob.deserialized()

d = Pyro5.api.Daemon(host="127.0.0.1", port=0)
uri = d.register(T(), "t")
stop = threading.Event()
th = threading.Thread(target=d.requestLoop, kwargs={"loopCondition": lambda: not stop.is_set()}, daemon=True)
th.start()
for ser in ("serpent", "marshal", "json", "msgpack"):
    with Pyro5.api.Proxy(uri) as p:
        p._pyroSerializer = ser
        p._pyroTimeout = 5
        try:
            print("blob via", ser, "->", p.blob(Pyro5.client.SerializedBlob("name", [1, 2, 3])))
        except Exception as x:
            print("blob via", ser, "->", type(x).__name__, x)
stop.set()
d.shutdown()
th.join(5)
os._exit(0)
