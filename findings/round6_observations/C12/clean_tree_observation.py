import sys, os; sys.path.insert(0, os.getcwd())
# Clean-tree observation for C12 (no library change applied):
#  1. a method that itself calls another Pyro object loses the response annotations it set before
#     the nested call, and the annotations of the NESTED call's reply are sent on with the reply of
#     the OUTER call (client code and server code share current_context.response_annotations);
#  2. after one SerializedBlob call, the "BLBI" request annotation of that call stays in the
#     calling thread's current_context.annotations and is sent with (and seen by the methods of)
#     every later, unrelated call.
import threading
import Pyro5.api
import Pyro5.server
import Pyro5.client
from Pyro5 import config
from Pyro5.callcontext import current_context

config.COMMTIMEOUT = 10.0
config.SERVERTYPE = "thread"


@Pyro5.api.expose
class Inner(object):
    def inner(self):
        current_context.response_annotations["INNR"] = b"for the caller of inner() only"
        return "inner"


@Pyro5.api.expose
class Outer(object):
    def __init__(self, inner_uri):
        self.inner_uri = inner_uri

    def outer(self):
        current_context.response_annotations["OUTR"] = b"set by outer() before the nested call"
        with Pyro5.api.Proxy(self.inner_uri) as p:
            p._pyroTimeout = 5
            p.inner()
        return "outer"

    def blob(self, blob):
        return "blob"

    def seen(self):
        return sorted(current_context.annotations)


def main():
    d = Pyro5.server.Daemon(host="127.0.0.1", port=0)
    inner_uri = d.register(Inner(), "inner")
    outer_uri = d.register(Outer(inner_uri), "outer")
    t = threading.Thread(target=d.requestLoop, daemon=True)
    t.start()
    try:
        with Pyro5.api.Proxy(outer_uri) as p:
            p._pyroTimeout = 5
            p.outer()
            got = {k: bytes(v) for k, v in current_context.response_annotations.items()}
            print("1. reply of outer() carried:", got)
            print("   expected only OUTR ->", "VIOLATION" if got != {"OUTR": b"set by outer() before the nested call"} else "ok")
            p.blob(Pyro5.client.SerializedBlob("info", [1, 2, 3]))
            seen = p.seen()
            print("2. request annotations seen by seen() after an earlier blob call:", seen)
            print("   expected [] ->", "VIOLATION" if seen else "ok")
            current_context.annotations = {}
    finally:
        d.shutdown()
        t.join(5)


if __name__ == "__main__":
    main()
    sys.stdout.flush()
    os._exit(0)
