"""Corners where the UNCHANGED tree already violates C02 (run from the worktree root). Informational only."""
import sys, os; sys.path.insert(0, os.getcwd())
import functools
import threading
from Pyro5 import server, client, config

config.COMMTIMEOUT = 5.0
log = []


@server.expose
class Helper(object):
    def __init__(self, *a):
        log.append("Helper.__init__%r" % (a,))

    def __call__(self, *a):
        log.append("Helper.__call__%r" % (a,))
        return "called"


class Ledger(object):
    @property
    def total(self):                       # never exposed
        log.append("Ledger.total getter")
        return 42


@server.expose
class Mixed(Ledger):
    @Ledger.total.setter                   # class level @expose marks fget too: that is Ledger's own getter function
    def total(self, v):
        pass


class Target(object):
    Inner = Helper                         # plain class attribute (a class that happens to be @exposed)

    def __init__(self):
        self.helper = Helper()             # plain instance attribute (instance of an @exposed class)

    @server.expose
    def ok(self):
        return 1

    @functools.cached_property
    def lazy(self):                        # non-data descriptor, not exposed
        log.append("Target.lazy getter")
        return 5

    def __dir__(self):
        log.append("Target.__dir__")
        return ["ok"]


daemon = server.Daemon(host="127.0.0.1", port=0)
threading.Thread(target=daemon.requestLoop, daemon=True).start()
try:
    uri = daemon.register(Target(), "target")
    uri2 = daemon.register(Ledger(), "ledger")      # plain Ledger: nothing exposed by its author
    with client.Proxy(uri) as p:
        p._pyroBind()
        print("advertised:", sorted(p._pyroMethods), sorted(p._pyroAttrs))
        for name in ("Inner", "helper", "lazy", "nosuch"):
            del log[:]
            try:
                r = p._pyroInvoke(name, ("x",), {})       # raw name, no client side filtering
                print("%-8s SERVED  -> %r; target code that ran: %s" % (name, r, log))
            except Exception as x:
                print("%-8s refused -> %s; target code that ran: %s" % (name, type(x).__name__, log))
    with client.Proxy(uri2) as p:
        del log[:]
        try:
            r = p._pyroInvoke("__getattr__", ("total",), {})
            print("ledger.total read SERVED -> %r; ran: %s (Ledger never exposed it; a subclass elsewhere did)" % (r, log))
        except Exception as x:
            print("ledger.total read refused", type(x).__name__)
finally:
    daemon.shutdown()
