import sys, os; sys.path.insert(0, os.getcwd())
import tempfile, shutil
from Pyro5.nameserver import NameServer, MemoryStorage, SqlStorage
d = tempfile.mkdtemp()
try:
    for label, st in (("memory", MemoryStorage()), ("sqlite", SqlStorage(os.path.join(d, "x.sqlite")))):
        ns = NameServer(st)
        ns.register("", "PYRO:empty@localhost:1")
        print(label, "lookup('') ->", ns.lookup(""), "| remove(name='') ->", ns.remove(name=""), "| still there:", "" in ns.list())
        ns.register("a", "PYRO:a@localhost:1")
        print(label, "list(prefix='') ->", sorted(ns.list(prefix="")), "| remove(prefix='') ->", ns.remove(prefix=""), "| count:", ns.count())
        ns.register("n", "PYRO:n@localhost:1", metadata={5})
        print(label, "metadata {5} reads back as", ns.lookup("n", return_metadata=True)[1])
        try:
            print(label, "yplookup(meta_any=iter(['x'])) ->", ns.yplookup(meta_any=iter(["x"])))
        except Exception as x:
            print(label, "yplookup(meta_any=iter(['x'])) raised", type(x).__name__, x)
finally:
    shutil.rmtree(d, ignore_errors=True)
