import sys, os; sys.path.insert(0, os.getcwd())
import io
from wsgiref.util import setup_testing_defaults
import Pyro5.utils.httpgateway as gw
gw.get_nameserver = lambda: (_ for _ in ()).throw(AssertionError("no ns traffic expected"))
gw.pyro_app.gateway_key = b"secret"
environ = {"PATH_INFO": "/pyro/http.x/m", "REQUEST_METHOD": "GET", "QUERY_STRING": "$key=a&$key=b"}
setup_testing_defaults(environ)
try:
    st = []
    print(b"".join(gw.pyro_app(environ, lambda s, h: st.append(s))), st)
except Exception as x:
    print("unhandled exception escapes pyro_app:", type(x).__name__, x)
