import sys, os; sys.path.insert(0, os.getcwd())
import threading, time
import Pyro5.server, Pyro5.client
threading.Timer(40, lambda: os._exit(3)).start()

class T(object):
    def __init__(self): self.n = 0; self.log = []
    @Pyro5.server.expose
    def inc(self): self.n += 1; return self.n
    @Pyro5.server.expose
    def stop(self): raise StopIteration("done")
    @Pyro5.server.expose
    @Pyro5.server.oneway
    def ow_fail(self): self.log.append("ow"); raise ValueError("oneway failure")
    @Pyro5.server.expose
    def get(self): return self.n, list(self.log)

@Pyro5.server.expose
@Pyro5.server.behavior(instance_mode="percall")
class PerCall(object):
    def __init__(self): self.n = 0
    def inc(self): self.n += 1; return self.n

d = Pyro5.server.Daemon(host="127.0.0.1", port=0)
threading.Thread(target=d.requestLoop, daemon=True).start()

# 1. StopIteration raised by a batched call surfaces as RuntimeError (PEP 479, results generator)
with Pyro5.client.Proxy(d.register(T())) as p:
    p._pyroTimeout = 5
    try: p.stop()
    except BaseException as x: print("1 sequential:", type(x).__name__)
    b = Pyro5.client.BatchProxy(p); b.inc(); b.stop()
    try: print(list(b()))
    except BaseException as x: print("1 batch     :", type(x).__name__, x)

# 2. @oneway method inside a normal batch: runs inline, its failure aborts the batch
u1, u2 = d.register(T()), d.register(T())
with Pyro5.client.Proxy(u1) as p:
    p._pyroTimeout = 5
    r = [p.inc(), p.ow_fail(), p.inc()]; time.sleep(0.3)
    print("2 sequential:", r, p.get())
with Pyro5.client.Proxy(u2) as p:
    p._pyroTimeout = 5
    b = Pyro5.client.BatchProxy(p); b.inc(); b.ow_fail(); b.inc()
    out = []
    try:
        for x in b(): out.append(x)
    except Exception as x: out.append(type(x).__name__)
    print("2 batch     :", out, p.get())

# 3. percall instance mode: one instance serves the whole batch
with Pyro5.client.Proxy(d.register(PerCall)) as p:
    p._pyroTimeout = 5
    print("3 sequential:", [p.inc(), p.inc(), p.inc()])
    b = Pyro5.client.BatchProxy(p); b.inc(); b.inc(); b.inc()
    print("3 batch     :", list(b()))

# 4. a batched-method object kept across a submission silently loses its later calls
with Pyro5.client.Proxy(d.register(T())) as p:
    p._pyroTimeout = 5
    b = Pyro5.client.BatchProxy(p); m = b.inc
    m(); print("4 first :", list(b()))
    m(); m(); print("4 second:", list(b()), "state", p.get())
d.shutdown()
os._exit(0)
