import sys, os; sys.path.insert(0, os.getcwd())
import threading
import Pyro5.api, Pyro5.server, Pyro5.client

@Pyro5.api.expose
@Pyro5.api.behavior(instance_mode="percall")
class P:
    def who(self):
        return id(self)

d = Pyro5.server.Daemon(host="127.0.0.1")
uri = d.register(P, "p")
t = threading.Thread(target=d.requestLoop, daemon=True); t.start()
with Pyro5.client.Proxy(uri) as px:
    px._pyroTimeout = 5
    b = Pyro5.client.BatchProxy(px)
    b.who(); b.who(); b.who()
    ids = list(b())
print("instances that served the 3 batched calls on a 'percall' class:", len(set(ids)))
d.shutdown(); t.join(5)
