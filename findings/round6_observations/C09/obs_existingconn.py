import sys, os; sys.path.insert(0, os.getcwd())
import socket, threading, time, weakref, gc
import Pyro5.api, Pyro5.server, Pyro5.client

made = []
@Pyro5.api.expose
@Pyro5.api.behavior(instance_mode="session")
class S:
    def __init__(self):
        made.append(weakref.ref(self))
    def ping(self):
        return id(self)

s1, s2 = socket.socketpair()
d = Pyro5.server.Daemon(connected_socket=s1)
d.register(S, "s")
loop_done = threading.Event(); release = threading.Event()
def run():
    d.requestLoop()          # returns when the connection ends
    loop_done.set()
    release.wait(20)         # the thread lives on (like a main thread would)
t = threading.Thread(target=run, daemon=True); t.start()
p = Pyro5.client.Proxy("s", connected_socket=s2)
p._pyroTimeout = 5
p.ping(); p.ping()
p._pyroRelease(); s2.close()
print("loop ended:", loop_done.wait(10))
for _ in range(20):
    gc.collect(); time.sleep(0.05)
print("session instance still alive after the connection ended:", made[0]() is not None)
release.set(); t.join(5); gc.collect()
print("alive after the loop thread exited:", made[0]() is not None)
