import sys, os; sys.path.insert(0, os.getcwd())
# Corners where the UNCHANGED tree already departs from property C19.
import Pyro5.core as core
from Pyro5.serializers import serializers

u = core.URI("PYROMETA:a,b@h:1")
# 1. PYROMETA uris are unhashable (state tuple contains a set) although they define __eq__/__hash__
try:
    hash(u); print("hash ok")
except TypeError as x:
    print("1. hash(URI('PYROMETA:a,b@h:1')) ->", type(x).__name__, x)
# 2. json and msgpack turn the tag set into a list, so the received URI is not equal to the sent one
for name in ("serpent", "marshal", "json", "msgpack"):
    ser = serializers[name]
    u2 = ser.loads(ser.dumps(u))
    print("2. %-8s equal=%s object=%r" % (name, u2 == u, u2.object))
# 3. URI subclasses (e.g. the Pyro4 compatibility layer's URI) cannot be deserialized by any serializer
from Pyro5.compatibility import Pyro4
for name, ser in serializers.items():
    try:
        ser.loads(ser.dumps(Pyro4.URI("PYRO:o@h:1"))); print("3.", name, "ok")
    except Exception as x:
        print("3. %-8s %s: %s" % (name, type(x).__name__, x))
# 4. the ipv6 location regex is not anchored at the end: trailing junk after the port is silently dropped
print("4.", core.URI("PYRO:o@[::1]:55junk"), "| non-ipv6 form rejects it:", end=" ")
try:
    core.URI("PYRO:o@host:55junk")
except Exception as x:
    print(type(x).__name__)
# 5. the text form of a multi-tag PYROMETA uri is not a fixed point: tags are printed in set iteration order,
#    which depends on insertion history, so str(URI(str(u))) != str(u) for some tag sets / hash seeds.
import subprocess
code = ("import sys,os; sys.path.insert(0, os.getcwd()); import Pyro5.core as c; "
        "t=str(c.URI('PYROMETA:zeta,alpha,mid,meta1,meta2')); print(t, str(c.URI(t)), t==str(c.URI(t)))")
for seed in ("1", "6", "7", "10"):
    out = subprocess.run([sys.executable, "-c", code], env=dict(os.environ, PYTHONHASHSEED=seed),
                         capture_output=True, text=True, timeout=30).stdout.strip()
    print("5. PYTHONHASHSEED=%-3s %s" % (seed, out))
