import sys, os; sys.path.insert(0, os.getcwd())
import threading
import Pyro5.api, Pyro5.errors
from Pyro5 import config
config.COMMTIMEOUT = 5.0


@Pyro5.api.expose
class Thing(object):
    def fail(self, name):
        raise getattr(Pyro5.errors, name)("original message", 5)

    def nan(self):
        raise ValueError("bad value", float("nan"))

    def group(self):
        raise ExceptionGroup("several", [ValueError(1), KeyError("k")])

    def sysexit(self):
        raise SystemExit(3)

    def ok(self):
        return 42


stop = threading.Event()
daemon = Pyro5.api.Daemon(host="127.0.0.1", port=0)
uri = daemon.register(Thing(), "thing")
t = threading.Thread(target=lambda: daemon.requestLoop(loopCondition=lambda: not stop.is_set()), daemon=True)
t.start()


def attempt(label, func):
    try:
        r = func()
        print("%-45s -> returned %r" % (label, r))
    except BaseException as x:
        print("%-45s -> %s.%s%r" % (label, type(x).__module__, type(x).__name__, x.args))


for name in ["NamingError", "SecurityError", "ProtocolError", "TimeoutError", "CommunicationError",
             "ConnectionClosedError", "MessageTooLargeError", "SerializeError"]:
    with Pyro5.api.Proxy(uri) as p:
        p._pyroTimeout = 5
        attempt("remote raises errors." + name, lambda: p.fail(name))
        attempt("   next call on the same proxy", p.ok)
with Pyro5.api.Proxy(uri) as p:
    p._pyroTimeout = 5
    attempt("serpent ValueError('bad value', nan)", p.nan)
    attempt("serpent ExceptionGroup", p.group)
    attempt("SystemExit(3)", p.sysexit)
    attempt("   next call on the same proxy", p.ok)
stop.set()
sys.stdout.flush()
os._exit(0)
