"""
Clean-tree observation (not a seed): the name server's AutoCleaner does list() -> probe uri -> remove(name).
The remove is by NAME only, so a client that re-registers the name with a new, reachable uri between the
probe and the remove loses its fresh registration.  Each NameServer call is atomic, the cleaner's
compound "remove this name because THAT uri is dead" is not.

The interleaving is forced by a thin wrapper (this script's own helper) around the real NameServer that
performs the client's re-registration right before the cleaner's remove() call is passed on.
Prints what it saw; exits 0 always (observation only).
"""
import os
import socket
import sys
import time

sys.path.insert(0, os.path.normpath(os.path.join(os.path.dirname(os.path.abspath(__file__)), "..")))

from Pyro5 import config   # noqa: E402
from Pyro5.nameserver import NameServer, AutoCleaner   # noqa: E402

live = socket.socket()
live.bind(("127.0.0.1", 0))
live.listen(5)
dead = socket.socket()
dead.bind(("127.0.0.1", 0))
dead_port = dead.getsockname()[1]
dead.close()   # nothing listens here any more

ns = NameServer()
ns.register("service", "PYRO:svc@127.0.0.1:%d" % dead_port)
live_uri = "PYRO:svc@127.0.0.1:%d" % live.getsockname()[1]


class ClientSneaksIn(object):
    """passes everything on to the real name server; a client re-registers just before the cleaner's remove"""
    def __getattr__(self, item):
        return getattr(ns, item)

    def remove(self, name=None, prefix=None, regex=None):
        ns.register(name, live_uri)     # the restarted service announces its new, reachable location
        print("client re-registered %r -> %s" % (name, live_uri))
        return ns.remove(name, prefix, regex)


config.NS_AUTOCLEAN = 0.1
AutoCleaner.override_autoclean_min = True
AutoCleaner.max_unreachable_time = 0.0
AutoCleaner.loop_delay = 0.1
cleaner = AutoCleaner(ClientSneaksIn())
cleaner.start()
time.sleep(1.0)
cleaner.stop = True
cleaner.join()
print("final listing:", ns.list())
if "service" not in ns.list():
    print("OBSERVED: the fresh registration with a reachable uri was removed by the autoclean of the old, dead uri")
else:
    print("not observed")
live.close()
