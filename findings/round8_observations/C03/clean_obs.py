"""
Clean-tree observation for C03 (NOT a seed): the proxy decides "oneway" by method NAME only, also for the calls it
makes itself on the daemon object (get_next_stream_item / close_stream / get_metadata, sent with
objectId=Pyro.Daemon).  If the user's object happens to expose a @oneway method with one of those names, the
proxy's own stream fetches are sent as oneway calls: every fetch returns None without reading any reply, the
real items are consumed (and thrown away) by a oneway thread on the server, and the iteration never ends.

Exit 0 always (this documents behaviour of the unchanged tree); prints what it saw.
"""
import os
import sys
import time
import threading

sys.path.insert(0, os.path.abspath(os.path.join(os.path.dirname(os.path.abspath(__file__)), "..")))

import Pyro5.api   # noqa: E402


@Pyro5.api.expose
class Feed(object):
    def numbers(self):
        return iter([10, 20, 30])

    @Pyro5.api.oneway
    def get_next_stream_item(self, note):      # an innocent user method, same name as the daemon's own
        pass


class Plain(object):
    @Pyro5.api.expose
    def numbers(self):
        return iter([10, 20, 30])


def fetch(uri, limit=8):
    got = []
    with Pyro5.api.Proxy(uri) as p:
        stream = p.numbers()
        for item in stream:
            got.append(item)
            if len(got) >= limit:
                break
            time.sleep(0.02)
        stream.proxy = None     # don't bother closing
    return got


def main():
    daemon = Pyro5.api.Daemon(host="127.0.0.1", port=0)
    u1 = daemon.register(Plain(), "plain")
    u2 = daemon.register(Feed, "feed")
    threading.Thread(target=daemon.requestLoop, daemon=True).start()
    print("object without the name clash :", fetch(u1))
    got = fetch(u2)
    print("object with @oneway get_next_stream_item:", got)
    if got != [10, 20, 30]:
        print("OBSERVED: stream fetches on this proxy returned", got[:4], "... instead of the items 10, 20, 30 "
              "(each fetch was sent oneway, returned None and consumed no reply)")
    daemon.shutdown()


if __name__ == "__main__":
    main()
