"""
Observations on the UNCHANGED tree (C01): values from the stated domain that do not cross unchanged.
Prints what it sees; always exits 0 (this is a report, not a check).
"""
import os
import sys

sys.path.insert(0, os.path.normpath(os.path.join(os.path.dirname(os.path.abspath(__file__)), "..")))

from Pyro5 import serializers     # noqa: E402

nan = float("nan")


def show(sername, label, value):
    ser = serializers.serializers[sername]
    for path, func in (("dumps/loads", lambda: ser.loads(ser.dumps(value))),
                       ("dumpsCall/loadsCall", lambda: ser.loadsCall(ser.dumpsCall("o", "m", (value,), {"k": value}))[2][0])):
        try:
            got = func()
            outcome = "delivered" if got == value or repr(got) == repr(value) else "delivered as %.60r" % (got,)
        except Exception as x:
            outcome = "FAILS with %s: %.90s" % (type(x).__name__, x)
        print("%-8s %-22s %-30s %s" % (sername, path, label, outcome))


# 1. serpent: a nan inside a set/frozenset, or as a dict key, cannot be loaded (serpent writes nan as a class dict, which is unhashable)
show("serpent", "{nan}", {nan})
show("serpent", "frozenset({1.5, nan})", frozenset({1.5, nan}))
show("serpent", "{nan: 1}", {nan: 1})
show("serpent", "(nan,) for comparison", (nan,))
# 2. 'integers far beyond 64 bits': above 4300 digits (python 3.11+ int/str conversion limit) only marshal delivers them
big = 10 ** 5000
for name in sorted(serializers.serializers):
    show(name, "10**5000", big)
# 3. msgpack: dicts with integer keys serialize but are refused on load (strict_map_key), json silently turns the keys into strings
for name in ("msgpack", "json", "serpent", "marshal"):
    show(name, "{1: 'one'}", {1: "one"})
