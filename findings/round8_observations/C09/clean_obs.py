"""
Clean-tree observations for C09 (run on the UNCHANGED tree; prints what it sees, always exits 0).

 1. Daemon on a user-supplied connected socket (svr_existingconn): when the client ends the connection the
    transport server only drops its reference to the SocketConnection (self.conn = None) and never calls
    close() on it.  The thread that ran the request loop still has current_context.client pointing at that
    SocketConnection, so its pyroInstances table - and with it the 'session' instance - stays alive after
    the connection has ended (until that thread handles another request or dies).
 2. A batch request on a 'percall' class: _getInstance runs once per request, so all calls inside one batch
    are served by the same instance (fresh instance per request, not per call).
"""
import gc
import os
import socket
import sys
import threading
import time
import weakref

sys.path.insert(0, os.path.abspath(os.path.join(os.path.dirname(os.path.abspath(__file__)), "..")))

import Pyro5.api            # noqa: E402
import Pyro5.client         # noqa: E402
import Pyro5.server         # noqa: E402
from Pyro5 import config    # noqa: E402

config.COMMTIMEOUT = 10.0
live = []


@Pyro5.server.expose
class Session(object):
    def __init__(self):
        live.append(weakref.ref(self))

    def ping(self):
        return "pong"


@Pyro5.server.behavior(instance_mode="percall")
@Pyro5.server.expose
class PerCall(object):
    serials = 0

    def __init__(self):
        PerCall.serials += 1
        self.serial = PerCall.serials

    def who(self):
        return self.serial


def observation_1():
    s_server, s_client = socket.socketpair()
    daemon = Pyro5.server.Daemon(connected_socket=s_server)
    daemon.register(Session, "sess")
    release = threading.Event()
    loop_ended = threading.Event()

    def serve():
        daemon.requestLoop()    # ends when the client goes away
        loop_ended.set()
        release.wait(20)        # the thread lives on (like a long-lived main thread would)

    t = threading.Thread(target=serve, daemon=True)
    t.start()
    with Pyro5.client.Proxy("sess", connected_socket=s_client) as p:
        print("  call:", p.ping())
    s_client.close()
    time.sleep(1.0)
    for _ in range(5):
        gc.collect()
        time.sleep(0.1)
    alive = [r for r in live if r() is not None]
    print("  request loop ended because the connection is gone:", loop_ended.is_set())
    print("  session instances created: %d, still alive 1.5s after the connection ended: %d" % (len(live), len(alive)))
    release.set()
    t.join(5)
    gc.collect()
    alive = [r for r in live if r() is not None]
    print("  ... after the serving thread itself ended: %d" % len(alive))
    daemon.close()


def observation_2():
    daemon = Pyro5.server.Daemon(host="127.0.0.1", port=0)
    uri = daemon.register(PerCall, "percall")
    t = threading.Thread(target=daemon.requestLoop, daemon=True)
    t.start()
    with Pyro5.api.Proxy(uri) as p:
        plain = [p.who(), p.who(), p.who()]
        batch = Pyro5.api.BatchProxy(p)
        batch.who()
        batch.who()
        batch.who()
        batched = list(batch())
    print("  three plain calls served by  :", plain)
    print("  three batched calls served by:", batched)
    daemon.shutdown()
    t.join(5)
    daemon.close()


if __name__ == "__main__":
    print("observation 1 (existing-connection server, session instance after disconnect):")
    observation_1()
    print("observation 2 (percall class, batched calls):")
    observation_2()
