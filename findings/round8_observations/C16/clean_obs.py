"""Clean-tree observations for C16 (run on the UNCHANGED tree). Prints what it sees; exits 0 always."""
import os, sys, gc
sys.path.insert(0, os.path.abspath(os.path.join(os.path.dirname(os.path.abspath(__file__)), "..")))
import Pyro5.server, Pyro5.errors
from Pyro5.server import expose


@expose
class Thing(object):
    def __init__(self, name):
        self.name = name

    def who(self):
        return self.name


def obs1_stale_finalizer():
    """weak a under X; unregister X; strong b under X; a collected -> finalizer unregisters b."""
    with Pyro5.server.Daemon(port=0) as d:
        a, b = Thing("a"), Thing("b")
        d.register(a, "X", weak=True)
        d.unregister("X")
        d.register(b, "X")
        before = "X" in d.objectsById
        del a
        gc.collect()
        after = "X" in d.objectsById
        print("obs1 stale weak finalizer: b registered before gc=%s, after gc=%s  %s"
              % (before, after, "(VIOLATION: b lost its registration)" if before and not after else "(ok)"))


def obs1b_stale_finalizer_forced():
    """weak a under X; forced registration of b under X; a collected -> finalizer unregisters b."""
    with Pyro5.server.Daemon(port=0) as d:
        a, b = Thing("a"), Thing("b")
        d.register(a, "X", weak=True)
        d.register(b, "X", force=True)
        del a
        gc.collect()
        after = "X" in d.objectsById
        print("obs1b forced replacement of weak registration: b registered after gc=%s  %s"
              % (after, "(ok)" if after else "(VIOLATION: b lost its registration)"))


def obs2_unregister_instance_of_registered_class():
    """class K registered; unregister(K()) of an instance that was never registered removes the class registration."""
    with Pyro5.server.Daemon(port=0) as d:
        d.register(Thing, "cls")
        inst = Thing("never registered")
        try:
            d.unregister(inst)
            outcome = "returned normally"
        except Exception as x:
            outcome = "raised %s: %s" % (type(x).__name__, x)
        print("obs2 unregister(instance of registered class): %s; class still registered=%s  %s"
              % (outcome, "cls" in d.objectsById, "(ok)" if "cls" in d.objectsById else "(VIOLATION: class registration removed)"))
        try:
            del Thing._pyroId, Thing._pyroDaemon
        except AttributeError:
            pass


def obs3_id_with_at_sign():
    """an id containing '@' : register raises, but the object stays registered."""
    with Pyro5.server.Daemon(port=0) as d:
        a = Thing("a")
        try:
            d.register(a, "left@right")
            outcome = "uri=%s whose .object is %r" % (d.uriFor("left@right"), d.uriFor("left@right").object)
        except Exception as x:
            outcome = "raised %s: %s" % (type(x).__name__, x)
        print("obs3 register(obj, 'left@right'): %s; id listed=%s  (the returned uri names object 'left', not the registered id)" % (outcome, "left@right" in d.objectsById))


def obs4_unregister_by_stale_object():
    """a under X; unregister("X") (a keeps _pyroId); b under X; unregister(a) -> removes b's registration."""
    with Pyro5.server.Daemon(port=0) as d:
        a, b = Thing("a"), Thing("b")
        d.register(a, "X")
        d.unregister("X")
        d.register(b, "X")
        d.unregister(a)      # a is not registered any more
        still = d.objectsById.get("X") is b
        print("obs4 unregister(a) after a was unregistered by id and b took the id: b still registered=%s  %s"
              % (still, "(ok)" if still else "(VIOLATION: b lost its registration, b keeps _pyroId=%r)" % getattr(b, "_pyroId", None)))


def obs5_proxy_for_replaced_object():
    """a under X; b forced under X; uriFor(a)/proxyFor(a) still succeed and denote b."""
    with Pyro5.server.Daemon(port=0) as d:
        a, b = Thing("a"), Thing("b")
        d.register(a, "X")
        d.register(b, "X", force=True)
        try:
            outcome = "returned %s" % d.uriFor(a)
        except Exception as x:
            outcome = "raised %s: %s" % (type(x).__name__, x)
        print("obs5 uriFor(a) after b was force-registered under a's id: %s  (a is not registered; the uri denotes b)" % outcome)


if __name__ == "__main__":
    obs1_stale_finalizer()
    obs1b_stale_finalizer_forced()
    obs2_unregister_instance_of_registered_class()
    obs3_id_with_at_sign()
    obs4_unregister_by_stale_object()
    obs5_proxy_for_replaced_object()
