"""
Clean-tree observations for C08 (run on the UNCHANGED tree; prints findings, always exits 0).

The property says: if the validator raises (any exception type) the peer receives a connect-failure carrying
the reason and the connection is closed.  On the unchanged tree that is not true for every exception type.
"""
import os
import sys
import socket
import threading
import time

sys.path.insert(0, os.path.abspath(os.path.join(os.path.dirname(os.path.abspath(__file__)), "..")))

from Pyro5 import config, protocol, serializers, server, errors
from Pyro5.callcontext import current_context


class BadStr(Exception):
    def __str__(self):
        return 403     # not a str


class Quit(BaseException):
    pass


def make_daemon(exc_factory):
    class D(server.Daemon):
        def validateHandshake(self, conn, data):
            raise exc_factory()
    return D


def probe(location, timeout=2.0):
    host, port = location.split(":")
    ser = serializers.serializers_by_id[serializers.MarshalSerializer.serializer_id]
    current_context.correlation_id = None
    connect = protocol.SendingMessage(protocol.MSG_CONNECT, 0, 1, ser.serializer_id,
                                      ser.dumps({"handshake": "x", "object": "Pyro.Daemon"}))
    sock = socket.create_connection((host, int(port)), timeout=timeout)
    sock.sendall(connect.data)
    data = b""
    state = "closed"
    try:
        while True:
            chunk = sock.recv(65536)
            if not chunk:
                break
            data += chunk
    except socket.timeout:
        state = "STILL OPEN after %.0fs (peer hangs)" % timeout
    except ConnectionResetError:
        state = "reset"
    sock.close()
    types = []
    while len(data) >= protocol._header_size:
        m = protocol.ReceivingMessage(bytes(data[:protocol._header_size]))
        types.append(m.type)
        data = data[protocol._header_size + m.annotations_size + m.data_size:]
    return types, state


def main():
    config.POLLTIMEOUT = 0.3
    config.COMMTIMEOUT = 0
    cases = [
        ("ValueError('no')", lambda: ValueError("no")),
        ("exception whose __str__ returns a non-str", BadStr),
        ("errors.ConnectionClosedError('no')", lambda: errors.ConnectionClosedError("no")),
        ("BaseException subclass", Quit),
    ]
    for servertype in ("thread", "multiplex"):
        config.SERVERTYPE = servertype
        for label, factory in cases:
            daemon = make_daemon(factory)(host="127.0.0.1", port=0)
            loop = threading.Thread(target=daemon.requestLoop, daemon=True)
            loop.start()
            types, state = probe(daemon.locationStr)
            time.sleep(0.2)
            alive = loop.is_alive()
            print("[%-9s] validator raises %-42s -> reply types=%s connection=%s requestLoop alive=%s"
                  % (servertype, label, types, state, alive))
            try:
                daemon.shutdown()
            except Exception as x:
                print("            (shutdown: %r)" % x)
            loop.join(3)


if __name__ == "__main__":
    main()
