"""
Clean-tree observations for C02 (UNCHANGED tree).  Prints what it sees; exits 0 always.

1. A plain (class or instance) attribute whose VALUE is an instance of an @expose'd class, or the
   @expose'd class itself, passes the method gate (the class-level `_pyroExposed = True` mark is
   found through the value) and is then *called*: `__call__` of the helper / `__init__` of the class
   runs with peer-supplied arguments, although the name denotes a plain attribute, is not advertised,
   and `__call__`/`__init__` are reserved dunder names.
2. A plain instance attribute that holds an exposed bound method of another object is served
   (not advertised); an instance attribute that shadows an exposed method of the class makes an
   advertised name unserved.  (Metadata is computed from the class, the gate looks at the instance.)
"""
import os
import sys
import threading

sys.path.insert(0, os.path.abspath(os.path.join(os.path.dirname(os.path.abspath(__file__)), "..")))

import Pyro5.client     # noqa: E402
import Pyro5.core       # noqa: E402
import Pyro5.server     # noqa: E402
from Pyro5 import config    # noqa: E402

config.SERVERTYPE = "thread"
config.COMMTIMEOUT = 10.0
expose = Pyro5.server.expose
LOG = []


@expose
class Helper(object):
    def __init__(self, *args):
        LOG.append("Helper.__init__%r" % (args,))

    def __call__(self, *args):
        LOG.append("Helper.__call__%r" % (args,))
        return "called"

    def work(self):
        return "work"


class Other(object):
    @expose
    def exposed_elsewhere(self):
        LOG.append("Other.exposed_elsewhere")
        return "elsewhere"


class Target(object):
    helper_class = Helper              # plain class attribute

    def __init__(self):
        self.helper = Helper()         # plain instance attribute (nested helper object)
        self.hook = Other().exposed_elsewhere   # plain instance attribute
        self.shadowed = "just data"    # shadows the exposed method below

    @expose
    def ping(self):
        return "pong"

    @expose
    def shadowed(self):
        return "method"


def main():
    daemon = Pyro5.server.Daemon(host="127.0.0.1", port=0)
    uri = daemon.register(Target(), "target")
    threading.Thread(target=daemon.requestLoop, daemon=True).start()
    del LOG[:]
    try:
        with Pyro5.client.Proxy(uri) as p:
            p._pyroBind()
            meta = p._pyroInvoke("get_metadata", ["target"], {}, objectId=Pyro5.core.DAEMON_NAME)
            print("advertised methods:", sorted(meta["methods"]), "attrs:", sorted(meta["attrs"]))
            for name, args in (("helper", ["x"]), ("helper_class", ["y"]), ("hook", []), ("shadowed", []), ("ping", [])):
                before = len(LOG)
                try:
                    r = ("result", p._pyroInvoke(name, args, {}))
                except Exception as x:
                    r = ("error", "%s: %s" % (type(x).__name__, str(x)[:80]))
                print("call %-13s -> %-6s %-60r ran=%s" % (name, r[0], r[1], LOG[before:]))
    finally:
        daemon.shutdown()


if __name__ == "__main__":
    main()
