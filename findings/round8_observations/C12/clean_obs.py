"""
Clean-tree observation for C12 (not used as a seed): a server method that makes a nested Pyro call
shares current_context.response_annotations between its role as server (annotations for ITS reply)
and its role as client (annotations of the nested reply).  So
  (1) the annotations the backend set for its reply to the gateway are forwarded, unasked, with the
      gateway's reply to the end client (a different call, a different client), and
  (2) annotations the gateway method set before the nested call are silently dropped.
Exits 1 when (1) is observed, 0 otherwise.
"""
import os
import sys
import threading

sys.path.insert(0, os.path.abspath(os.path.join(os.path.dirname(os.path.abspath(__file__)), "..")))

import Pyro5.api      # noqa: E402
from Pyro5.api import current_context   # noqa: E402

Pyro5.config.COMMTIMEOUT = 20.0


@Pyro5.api.expose
class Backend(object):
    def fetch(self):
        current_context.response_annotations["BSEC"] = b"backend-to-gateway only"
        return "data"


@Pyro5.api.expose
@Pyro5.api.behavior(instance_mode="single")
class Gateway(object):
    backend_uri = None

    def fetch(self):
        current_context.response_annotations["GWAY"] = b"set by gateway before nested call"
        with Pyro5.api.Proxy(self.backend_uri) as backend:
            return backend.fetch()


def main():
    backend_daemon = Pyro5.api.Daemon(host="127.0.0.1", port=0)
    gateway_daemon = Pyro5.api.Daemon(host="127.0.0.1", port=0)
    Gateway.backend_uri = backend_daemon.register(Backend, "backend")
    uri = gateway_daemon.register(Gateway, "gateway")
    for d in (backend_daemon, gateway_daemon):
        threading.Thread(target=d.requestLoop, daemon=True).start()
    try:
        with Pyro5.api.Proxy(uri) as client:
            result = client.fetch()
            got = {k: bytes(v).decode() for k, v in current_context.response_annotations.items()}
    finally:
        gateway_daemon.shutdown()
        backend_daemon.shutdown()
    print("client called gateway.fetch() -> %r; response annotations on that reply: %r" % (result, got))
    if "GWAY" not in got:
        print("(2) the annotation the gateway method set before its nested call was dropped")
    if "BSEC" in got:
        print("(1) the backend's response annotation (set for its reply to the gateway) reached the end client")
        sys.exit(1)


if __name__ == "__main__":
    main()
