"""
Clean-tree observation for C13: two DISTINCT resources that compare equal (value-style __eq__/__hash__)
are collapsed by the WeakSet behind current_context.track_resource(); only the first one is tracked, so the
second one is never closed when the connection ends (and untrack_resource(second) untracks the first).
Exits 1 when the observation reproduces, 0 when it does not.
"""
import os
import sys
import time
import threading

sys.path.insert(0, os.path.abspath(os.path.join(os.path.dirname(__file__), "..")))

import Pyro5.server                                  # noqa: E402
import Pyro5.client                                  # noqa: E402
from Pyro5.callcontext import current_context        # noqa: E402


class Handle(object):
    """value-equal handles, e.g. two leases on the same named thing"""
    def __init__(self, name):
        self.name = name
        self.close_calls = 0

    def __eq__(self, other):
        return isinstance(other, Handle) and other.name == self.name

    def __hash__(self):
        return hash(self.name)

    def close(self):
        self.close_calls += 1


HANDLES = []


@Pyro5.server.expose
@Pyro5.server.behavior(instance_mode="single")
class Service(object):
    def lease(self, name):
        h = Handle(name)
        HANDLES.append(h)
        current_context.track_resource(h)     # no error: the caller believes it is tracked
        return len(current_context.client.tracked_resources)


daemon = Pyro5.server.Daemon(host="127.0.0.1", port=0)
uri = daemon.register(Service, "svc")
threading.Thread(target=daemon.requestLoop, daemon=True).start()
p = Pyro5.client.Proxy(uri)
print("tracked after 1st lease:", p.lease("printer"))
print("tracked after 2nd lease:", p.lease("printer"))
p._pyroRelease()
time.sleep(1.0)
counts = [h.close_calls for h in HANDLES]
print("close() calls per handle after the connection ended:", counts)
daemon.shutdown()
sys.exit(0 if counts == [1, 1] else 1)
