"""
Clean-tree observation for C10 (NOT a seed): an item is lost when the client's call times out while
the server is still producing that item.

The client proxy has a timeout of 0.4 s. The generator needs 1.2 s for its third item. The client's
next() raises TimeoutError and (as designed) drops the connection; the server finishes next(stream),
fails to send the result, and the stream goes into linger. The client reconnects well inside the linger
period and continues - but it continues with item FOUR: item three was consumed on the server and is
gone for good. The property says a client that reconnects within the linger period continues with the
next item and that no item is lost.

Exit code: 0 when no loss is observed, 1 when the loss is observed (expected on the unchanged tree).
"""
import os
import sys
import time
import threading

sys.path.insert(0, os.path.abspath(os.path.join(os.path.dirname(os.path.abspath(__file__)), "..")))

import Pyro5.client       # noqa: E402
import Pyro5.errors       # noqa: E402
import Pyro5.server       # noqa: E402
from Pyro5 import config  # noqa: E402

SOURCE = ["one", "two", "three", "four", "five"]


@Pyro5.server.expose
class Source(object):
    def items(self):
        for item in SOURCE:
            if item == "three":
                time.sleep(1.2)
            yield item


def main():
    config.POLLTIMEOUT = 0.2
    config.ITER_STREAM_LINGER = 30.0
    daemon = Pyro5.server.Daemon(host="127.0.0.1", port=0)
    uri = daemon.register(Source(), "source")
    thread = threading.Thread(target=daemon.requestLoop, daemon=True)
    thread.start()
    received = []
    try:
        proxy = Pyro5.client.Proxy(uri)
        proxy._pyroTimeout = 0.4
        stream = proxy.items()
        while True:
            try:
                received.append(next(stream))
            except StopIteration:
                break
            except Pyro5.errors.TimeoutError as x:
                print("timeout while waiting for an item (%s); waiting, then reconnecting" % x)
                time.sleep(1.5)
                proxy._pyroReconnect(tries=3)
        proxy._pyroRelease()
    finally:
        daemon.shutdown()
        thread.join(5)
    print("source  :", SOURCE)
    print("received:", received)
    if received != SOURCE:
        print("OBSERVED: item(s) lost:", [i for i in SOURCE if i not in received])
        return 1
    print("no loss observed")
    return 0


if __name__ == "__main__":
    sys.exit(main())
