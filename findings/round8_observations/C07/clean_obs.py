"""Clean-tree deviations from C07 (UNCHANGED tree). Prints what the caller observes; exits 0 always."""
import os, sys, threading, logging
sys.path.insert(0, os.path.abspath(os.path.join(os.path.dirname(os.path.abspath(__file__)), "..")))
import Pyro5.api, Pyro5.client, Pyro5.errors, Pyro5.server, Pyro5.core
threading.excepthook = lambda a: print("    [server worker thread died with %s]" % a.exc_type.__name__)


@Pyro5.api.expose
class Thing(object):
    def boom(self, kind):
        if kind == "pyro-timeout":
            raise Pyro5.errors.TimeoutError("nested call timed out", 5)
        if kind == "protocol":
            raise Pyro5.errors.ProtocolError("bad upstream reply")
        if kind == "security":
            raise Pyro5.errors.SecurityError("denied", 403)
        if kind == "systemexit":
            raise SystemExit(3)
        if kind == "stopiteration":
            raise StopIteration("done", 1)
        if kind == "uri-arg":
            raise ValueError("bad target", Pyro5.core.URI("PYRO:obj@host:1234"))

    def ok(self):
        return 42


daemon = Pyro5.server.Daemon(host="127.0.0.1", port=0)
uri = daemon.register(Thing(), "thing")
threading.Thread(target=daemon.requestLoop, daemon=True).start()


def show(label, fn):
    try:
        print("  %-40s returned %r" % (label, fn()))
    except BaseException as x:
        print("  %-40s raised %s.%s%r" % (label, type(x).__module__, type(x).__name__, x.args))


with Pyro5.client.Proxy(uri) as p:
    print("1. Pyro CommunicationError family raised by the remote method is never reported (connection dropped):")
    show("raise Pyro5.errors.TimeoutError", lambda: p.boom("pyro-timeout"))
    show("raise Pyro5.errors.ProtocolError", lambda: p.boom("protocol"))
    print("2. SecurityError is reported, but the server then closes the connection; the NEXT call fails:")
    show("raise Pyro5.errors.SecurityError", lambda: p.boom("security"))
    show("next call on same proxy", lambda: p.ok())
    show("call after that", lambda: p.ok())
    print("3. BaseException-only classes kill the worker thread, caller sees ConnectionClosedError:")
    show("raise SystemExit(3)", lambda: p.boom("systemexit"))
    print("4. StopIteration as a batch member becomes RuntimeError (PEP 479, results generator):")
    show("plain call StopIteration", lambda: p.boom("stopiteration"))
    b = Pyro5.client.BatchProxy(p); b.ok(); b.boom("stopiteration")
    show("batch member StopIteration", lambda: list(b()))
    print("5. class-typed values inside exception args are not rebuilt (dict_to_class is not recursive for args):")
    show("ValueError('bad target', URI)", lambda: p.boom("uri-arg"))
daemon.shutdown()
