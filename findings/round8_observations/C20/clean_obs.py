"""
Clean-tree observations for C20 (unchanged Pyro5): call requests that are neither forwarded faithfully nor
refused with 403/404/405. Prints what happens; always exits 0 (these are observations, not seeds).
"""
import os
import sys
import io
import threading

sys.path.insert(0, os.path.abspath(os.path.join(os.path.dirname(os.path.abspath(__file__)), "..")))

import Pyro5
import Pyro5.core
import Pyro5.server
import Pyro5.nameserver
import Pyro5.utils.httpgateway as gw

NS_LOG, CALL_LOG = [], []


@Pyro5.server.expose
class LoggingNameServer(Pyro5.nameserver.NameServer):
    def lookup(self, name, return_metadata=False):
        NS_LOG.append(("lookup", name))
        return super().lookup(name, return_metadata)


@Pyro5.server.expose
class Calc(object):
    def record(self, **kwargs):
        CALL_LOG.append(("record", dict(kwargs)))
        return sorted(kwargs)


def http(path, query="", headers=None):
    environ = {"REQUEST_METHOD": "GET", "PATH_INFO": path, "QUERY_STRING": query, "SERVER_NAME": "localhost",
               "SERVER_PORT": "8080", "wsgi.input": io.BytesIO(b""), "wsgi.errors": io.StringIO(), "wsgi.url_scheme": "http"}
    for k, v in (headers or {}).items():
        environ["HTTP_" + k.upper().replace("-", "_")] = v
    seen = {}
    ns0, c0 = len(NS_LOG), len(CALL_LOG)
    try:
        body = b"".join(gw.pyro_app(environ, lambda status, hdrs: seen.update(status=status)))
    except Exception as x:
        return "EXCEPTION ESCAPED pyro_app: %r" % x, b"", NS_LOG[ns0:], CALL_LOG[c0:]
    return seen.get("status"), body[:160], NS_LOG[ns0:], CALL_LOG[c0:]


daemon = Pyro5.server.Daemon(host="localhost", port=0)
ns = LoggingNameServer()
ns.register(Pyro5.core.NAMESERVER_NAME, daemon.register(ns, Pyro5.core.NAMESERVER_NAME))
ns.register("http.calc", daemon.register(Calc(), "obj_calc"))
threading.Thread(target=daemon.requestLoop, daemon=True).start()
Pyro5.config.NS_HOST, Pyro5.config.NS_PORT = "localhost", daemon.sock.getsockname()[1]
gw.pyro_app.comm_timeout = 5.0

print("OBS 1: gateway key configured, $key given twice in the query, no header")
gw.pyro_app.gateway_key = b"s3cret"
print("   ", http("/pyro/http.calc/record", "$key=a&$key=b"))

print("OBS 2: no key configured; query parameter named 'self' (legal for a **kwargs method)")
gw.pyro_app.gateway_key = None
print("   ", http("/pyro/http.calc/record", "self=1"))

print("OBS 3: query parameter named '__class__'")
print("   ", http("/pyro/http.calc/record", "__class__=foo&x=1"))
daemon.shutdown()
