"""Reproduces C19 violations that exist on the UNCHANGED tree (not used as seeds). Prints what it sees, always exits 0."""
import os
import sys
import itertools

sys.path.insert(0, os.path.abspath(os.path.join(os.path.dirname(os.path.abspath(__file__)), "..")))

import Pyro5.core
import Pyro5.serializers
import Pyro5.server
from Pyro5.compatibility import Pyro4

URI = Pyro5.core.URI

print("1. PYROMETA uris are unhashable (state tuple contains a set)")
try:
    hash(URI("PYROMETA:a,b@host:9090"))
    print("   hashable")
except TypeError as x:
    print("   OBSERVED: hash() raised TypeError:", x)

print("2. PYROMETA uri through json / msgpack arrives unequal (tag set becomes a list)")
m = URI("PYROMETA:a,b@host:9090")
for name, ser in sorted(Pyro5.serializers.serializers.items()):
    r = ser.loads(ser.dumps(m))
    print("   %-8s equal=%s object=%r%s" % (name, r == m, r.object, "" if r == m else "   <-- OBSERVED"))

print("3. URI subclasses (e.g. the Pyro4 compatibility URI) cannot be deserialized by any serializer")
u = Pyro4.URI("PYRO:obj@host:4444")
for name, ser in sorted(Pyro5.serializers.serializers.items()):
    try:
        r = ser.loads(ser.dumps(u))
        print("   %-8s ok %r" % (name, r))
    except Exception as x:   # noqa
        print("   %-8s OBSERVED: %s: %s" % (name, type(x).__name__, x))

print("4. PYROMETA text form is not always a fixed point (tag order = set iteration order, which depends on insertion order when hashes collide)")
found = None
tags = ["t%d" % i for i in range(40)]
for a, b in itertools.permutations(tags, 2):
    first = URI("PYROMETA:%s,%s" % (a, b))
    text1 = str(first)
    text2 = str(URI(text1))
    if text1 != text2:
        found = (text1, text2, str(URI(text2)))
        break
if found:
    print("   OBSERVED: str(u)=%r  str(URI(str(u)))=%r  and once more: %r" % found)
else:
    print("   no colliding pair among the candidates with this hash seed (rerun, string hashes are randomized)")

print("5. Daemon.uriFor with an object id containing '@' yields a URI for a different object")
with Pyro5.server.Daemon(port=0) as d:
    uri = d.uriFor("my@obj")
    print("   uriFor('my@obj') ->", uri, " object=%r host=%r%s" % (uri.object, uri.host, "   <-- OBSERVED" if uri.object != "my@obj" else ""))
