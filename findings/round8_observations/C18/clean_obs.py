"""
Observations on the UNCHANGED tree (C18, thread pool). Exits 0 always; prints what it saw.

 1. A job that ends with a BaseException that is not an Exception (SystemExit from a remote method that
    calls sys.exit(), KeyboardInterrupt, GeneratorExit) kills the worker thread: Worker.run only catches
    Exception, so Pool.notify_done is never called and the dead worker stays in Pool.busy for ever.
    THREADPOOL_SIZE such jobs and the pool refuses every later connection although nothing is running.

 2. Pool.close() racing with a job hand-off: Worker.run tests `self.job is None` and then evaluates
    `self.job()` on the next line.  Pool.close() -> Worker.process(None) overwrites the slot in between,
    so the worker calls None(): TypeError is logged, the accepted job is never run (its connection is
    only closed by garbage collection, the client gets no reply).
"""
import os
import sys
import threading
import time
import linecache
import logging

sys.path.insert(0, os.path.abspath(os.path.join(os.path.dirname(os.path.abspath(__file__)), "..")))

from Pyro5 import config, svr_threads          # noqa: E402
from Pyro5.svr_threads import Pool, NoFreeWorkersError    # noqa: E402

SVR_FILE = os.path.abspath(svr_threads.__file__)
logging.getLogger("Pyro5").addHandler(logging.NullHandler())


class Job:
    def __init__(self, exc=None):
        self.exc = exc
        self.runs = 0

    def __call__(self):
        self.runs += 1
        if self.exc is not None:
            raise self.exc


def obs1():
    print("observation 1: job raising SystemExit")
    config.THREADPOOL_SIZE_MIN = 1
    config.THREADPOOL_SIZE = 2
    hook, threading.excepthook = threading.excepthook, lambda args: None   # keep stderr quiet
    pool = Pool()
    try:
        for _ in range(2):
            pool.process(Job(SystemExit(0)))
        time.sleep(0.5)
        alive = [w.is_alive() for w in pool.busy]
        print("   busy=%d idle=%d, busy workers alive: %s" % (len(pool.busy), len(pool.idle), alive))
        try:
            pool.process(Job())
            print("   later job accepted")
        except NoFreeWorkersError as x:
            print("   later job refused although no job is running: %s" % x)
    finally:
        pool.close()
        threading.excepthook = hook


def obs2():
    print("observation 2: Pool.close() between the worker's None-test and the call of the job")
    config.THREADPOOL_SIZE_MIN = 1
    config.THREADPOOL_SIZE = 1
    reached, resume = threading.Event(), threading.Event()

    def local_trace(frame, event, arg):
        if event == "line" and linecache.getline(SVR_FILE, frame.f_lineno).strip() == "self.job()" and not reached.is_set():
            reached.set()
            resume.wait(10)
        return local_trace

    def global_trace(frame, event, arg):
        if event == "call" and frame.f_code.co_name == "run" and os.path.abspath(frame.f_code.co_filename) == SVR_FILE:
            return local_trace
        return None

    records = []

    class Catch(logging.Handler):
        def emit(self, record):
            records.append(record.getMessage())
    handler = Catch()
    tplog = logging.getLogger("Pyro5.threadpoolserver")
    tplog.addHandler(handler)
    oldlevel, tplog.propagate = tplog.level, False
    tplog.setLevel(logging.ERROR)
    threading.settrace(global_trace)
    try:
        pool = Pool()
    finally:
        threading.settrace(None)
    job = Job()
    pool.process(job)
    assert reached.wait(10)
    closer = threading.Thread(target=pool.close)
    closer.start()
    while not pool.closed:
        time.sleep(0.01)
    resume.set()
    closer.join()
    time.sleep(0.3)
    tplog.removeHandler(handler)
    tplog.setLevel(oldlevel)
    tplog.propagate = True
    print("   job accepted before close ran %d time(s); worker log: %s" % (job.runs, records))


if __name__ == "__main__":
    try:
        obs1()
        obs2()
    finally:
        config.reset()
