"""Observations on the UNCHANGED tree (C14): prints what happens, always exits 0."""
import os
import sys
import shutil
import tempfile

sys.path.insert(0, os.path.abspath(os.path.join(os.path.dirname(os.path.abspath(__file__)), "..")))

from Pyro5.nameserver import NameServer, SqlStorage, MemoryStorage   # noqa: E402


def attempt(f):
    try:
        return f()
    except Exception as x:
        return "raises %s: %s" % (type(x).__name__, x)


tmp = tempfile.mkdtemp(prefix="c14obs-")
try:
    backends = [("memory", NameServer(MemoryStorage())), ("sqlite", NameServer(SqlStorage(os.path.join(tmp, "ns.sqlite"))))]
    U = "PYRO:o@h:1"

    print("1. empty name: can be registered and looked up, but never removed by name")
    for label, ns in backends:
        ns.register("", U)
        print("   %s: lookup('')=%s  remove(name='')=%r  still listed=%r" % (label, ns.lookup(""), ns.remove(name=""), "" in ns.list()))
        ns.remove(regex="$")

    print("2. name containing U+0000: prefix listing differs between the back-ends")
    for label, ns in backends:
        ns.register("a\x00b", U)
        print("   %s: list(prefix='a\\x00b')=%r   list(prefix='a')=%r" % (label, attempt(lambda: ns.list(prefix="a\x00b")), attempt(lambda: ns.list(prefix="a"))))
        ns.remove(name="a\x00b")

    print("3. name / tag with a lone surrogate: accepted by memory, UnicodeEncodeError (not NamingError) on sqlite")
    for label, ns in backends:
        print("   %s: register('x\\udcff')=%r   register('y', tags={'\\udcff'})=%r" % (
            label, attempt(lambda: ns.register("x\udcff", U)), attempt(lambda: ns.register("y", U, metadata={"\udcff"}))))

    print("4. non-string tag: memory keeps the int, sqlite gives back a str")
    for label, ns in backends:
        ns.register("n", U, metadata={5})
        print("   %s: lookup('n', True)[1]=%r  yplookup(meta_all={5})=%r" % (label, ns.lookup("n", True)[1], attempt(lambda: sorted(ns.yplookup(meta_all={5})))))

    print("5. in-process callers: list(return_metadata=True) of the memory back-end hands out the stored tag sets themselves")
    for label, ns in backends:
        ns.register("alias", U, metadata={"t"})
        ns.list(return_metadata=True)["alias"][1].add("INJECTED")
        print("   %s: lookup('alias', True)[1]=%r" % (label, ns.lookup("alias", True)[1]))
finally:
    shutil.rmtree(tmp, ignore_errors=True)
