"""
Observations on the UNCHANGED tree (see CLEAN_TREE_OBSERVATIONS.md).  Prints what it sees, always exits 0.

 1. multiplex server: a client that sends a *prefix* of a message and keeps the connection open freezes
    the whole daemon (handshake phase or request phase) for as long as it likes when there is no
    COMMTIMEOUT; a witness with its own client side timeout gets a TimeoutError for a perfectly good call.
 2. thread pool server: a remote method that ends with SystemExit (a BaseException, so strictly outside
    the 'Exception subclasses' of the property) kills the worker thread without notify_done():
    the dead worker stays in Pool.busy for ever.
"""
import os
import sys
import socket
import threading
import time

sys.path.insert(0, os.path.abspath(os.path.join(os.path.dirname(os.path.abspath(__file__)), "..")))

import Pyro5.api                      # noqa: E402
from Pyro5 import config, protocol     # noqa: E402


@Pyro5.api.expose
class Thing(object):
    def echo(self, value):
        return value

    def leave(self):
        sys.exit(3)


def start(servertype):
    config.SERVERTYPE = servertype
    config.POLLTIMEOUT = 0.2
    config.COMMTIMEOUT = 0.0
    daemon = Pyro5.api.Daemon(host="127.0.0.1", port=0)
    uri = daemon.register(Thing(), "thing")
    t = threading.Thread(target=daemon.requestLoop, daemon=True)
    t.start()
    time.sleep(0.2)
    return daemon, uri, t


def observation_1():
    daemon, uri, t = start("multiplex")
    host, port = daemon.locationStr.split(":")
    witness = Pyro5.api.Proxy(uri)
    witness._pyroTimeout = 1.5
    assert witness.echo(1) == 1
    hostile = socket.create_connection((host, int(port)))
    hostile.sendall(protocol.SendingMessage(protocol.MSG_CONNECT, 0, 0, 2, b"x" * 50).data[:20])   # half a header, no disconnect
    time.sleep(0.3)
    start_t = time.time()
    try:
        print("1. witness call while the hostile client dawdles:", witness.echo(2))
    except Exception as x:
        print("1. witness call while the hostile client dawdles: %s: %s after %.1fs" % (type(x).__name__, x, time.time() - start_t))
    hostile.close()
    time.sleep(0.3)
    try:
        witness._pyroReconnect(tries=1)
        print("1. after the hostile client left: witness.echo(3) ->", witness.echo(3), "; loop alive:", t.is_alive())
    except Exception as x:
        print("1. after the hostile client left: %s: %s" % (type(x).__name__, x))


def observation_2():
    daemon, uri, t = start("thread")
    pool = daemon.transportServer.pool
    print("2. before: busy=%d idle=%d" % (len(pool.busy), len(pool.idle)))
    p = Pyro5.api.Proxy(uri)
    p._pyroTimeout = 2
    try:
        p.leave()
    except Exception as x:
        print("2. client of the SystemExit method got: %s: %s" % (type(x).__name__, x))
    p._pyroRelease()
    time.sleep(0.5)
    dead = [w for w in pool.busy if not w.is_alive()]
    print("2. after the client has gone: busy=%d idle=%d, dead threads still accounted as busy: %d"
          % (len(pool.busy), len(pool.idle), len(dead)))


if __name__ == "__main__":
    observation_1()
    observation_2()
    sys.stdout.flush()
    os._exit(0)
