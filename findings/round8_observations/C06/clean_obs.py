"""
Clean-tree observations for C06 (decoder accepts byte strings that are not well-formed / do not re-encode equivalently).
Prints what it sees; always exits 0 (these are observations on the UNCHANGED tree, not seeds).
"""
import os
import struct
import subprocess
import sys
import zlib

ROOT = os.path.abspath(os.path.join(os.path.dirname(os.path.abspath(__file__)), ".."))
sys.path.insert(0, ROOT)

from Pyro5 import protocol   # noqa: E402


def header(flags, data_size, ann_size, reserved=0):
    return struct.pack(protocol._header_format, b"PYRO", protocol.PROTOCOL_VERSION, protocol.MSG_RESULT, 2, flags, 7,
                       data_size, ann_size, b"\0" * 16, reserved, protocol._magic_number)


def attempt(title, hdr, body):
    try:
        msg = protocol.ReceivingMessage(hdr, body)
        print("%-70s ACCEPTED data=%r annotations=%r" % (title, bytes(msg.data)[:20], {k: bytes(v) for k, v in msg.annotations.items()}))
    except Exception as x:
        print("%-70s refused: %s: %s" % (title, type(x).__name__, x))


# 1. compressed payload followed by trailing garbage inside the declared data length: zlib.decompress ignores the tail
body = zlib.compress(b"A" * 500) + b"TRAILING-GARBAGE"
attempt("1. compressed data + trailing garbage", header(protocol.FLAGS_COMPRESSED, len(body), 0), body)

# 2. the same annotation id twice: the first chunk silently disappears, re-encoding gives a shorter message
anns = struct.pack("!4sI", b"ABCD", 3) + b"one" + struct.pack("!4sI", b"ABCD", 3) + b"two"
attempt("2. duplicate annotation id", header(0, 1, len(anns)), anns + b"x")

# 3. non-zero reserved header field, and the correlation-id flag with an all-zero correlation id
attempt("3. reserved field 0xbeef", header(0, 1, 0, reserved=0xbeef), b"x")

# 4. the exact-tiling check of the annotation chunks is an 'assert': AssertionError normally, accepted under python -O
bad = struct.pack("!4sI", b"ABCD", 100) + b"xy"       # chunk claims 100 bytes, annotations_size says 10
attempt("4. annotation chunk overruns the annotation area (normal)", header(0, 3, len(bad)), bad + b"abc")
code = ("import sys,struct; sys.path.insert(0,%r); from Pyro5 import protocol; "
        "bad=struct.pack('!4sI',b'ABCD',100)+b'xy'; "
        "h=struct.pack(protocol._header_format,b'PYRO',protocol.PROTOCOL_VERSION,5,2,0,7,3,len(bad),bytes(16),0,protocol._magic_number); "
        "m=protocol.ReceivingMessage(h,bad+b'abc'); print('   under -O: ACCEPTED', bytes(m.data), {k:bytes(v) for k,v in m.annotations.items()})" % ROOT)
print(subprocess.run([sys.executable, "-O", "-c", code], capture_output=True, text=True).stdout.rstrip()
      or "   under -O: refused")
