"""
Clean-tree observations for C11 (batch == the same calls one after another).
Runs on the UNCHANGED tree; prints, for every case, what the sequential run and the batch run gave.
Exit code is always 0: this is a report, not a test.
"""
import os
import sys
import threading
import time

sys.path.insert(0, os.path.abspath(os.path.join(os.path.dirname(os.path.abspath(__file__)), "..")))

import Pyro5.api          # noqa: E402
import Pyro5.client       # noqa: E402
import Pyro5.errors       # noqa: E402
import Pyro5.server       # noqa: E402


@Pyro5.server.expose
class Thing(object):
    def __init__(self):
        self.items = []
        self.log = []

    def add(self, x):                 # returns its own (mutable) internal list
        self.log.append("add")
        self.items.append(x)
        return self.items

    def exhausted(self):              # a method that lets a StopIteration escape
        self.log.append("exhausted")
        return next(iter(()))

    def upstream_down(self):          # e.g. a gateway method whose own backend proxy failed
        self.log.append("upstream_down")
        raise Pyro5.errors.CommunicationError("backend unreachable")

    def unserializable(self):         # result cannot be serialized
        self.log.append("unserializable")
        return object()

    @Pyro5.server.oneway
    def fire(self):                   # oneway method that fails
        self.log.append("fire")
        raise RuntimeError("boom")

    def ping(self):
        self.log.append("ping")
        return "pong"


@Pyro5.server.expose
@Pyro5.server.behavior(instance_mode="percall")
class Counter(object):
    def __init__(self):
        self.n = 0

    def incr(self):
        self.n += 1
        return self.n


def sequential(proxy, calls):
    out = []
    for name, args in calls:
        try:
            out.append(("ok", getattr(proxy, name)(*args)))
        except Exception as x:
            out.append(("exc", type(x).__name__, str(x)[:60]))
            break
    return out


def batched(proxy, calls):
    b = Pyro5.client.BatchProxy(proxy)
    for name, args in calls:
        getattr(b, name)(*args)
    try:
        results = b()
    except Exception as x:
        return [("exc-at-submit", type(x).__name__, str(x)[:60])]
    out = []
    while True:
        try:
            out.append(("ok", next(results)))
        except StopIteration:
            break
        except Exception as x:
            out.append(("exc", type(x).__name__, str(x)[:60]))
            break
    return out


def compare(daemon, title, calls, factory=Thing, settle=0.0):
    a, b = factory, factory
    if not isinstance(factory, type) or factory is Thing:
        a, b = Thing(), Thing()
    ua, ub = daemon.register(a, force=True) if not isinstance(a, type) else daemon.register(a, "seq_" + title.split()[0], force=True), \
        daemon.register(b, force=True) if not isinstance(b, type) else daemon.register(b, "bat_" + title.split()[0], force=True)
    with Pyro5.client.Proxy(ua) as p:
        s = sequential(p, calls)
    with Pyro5.client.Proxy(ub) as p:
        r = batched(p, calls)
    time.sleep(settle)
    print("== " + title)
    print("   sequential:", s)
    print("   batch     :", r)
    if not isinstance(a, type):
        print("   calls executed   sequential:", a.log)
        print("   calls executed   batch     :", b.log)
    print("   ->", "SAME" if s == r and (isinstance(a, type) or a.log == b.log) else "DIFFERENT")
    for o in (a, b):
        try:
            daemon.unregister(o)
        except Exception:
            pass


def main():
    daemon = Pyro5.server.Daemon(host="127.0.0.1", port=0)
    t = threading.Thread(target=daemon.requestLoop, daemon=True)
    t.start()
    try:
        compare(daemon, "1 results that alias mutable object state are serialized only after the whole batch ran",
                [("add", (1,)), ("add", (2,)), ("add", (3,))])
        compare(daemon, "2 a remote StopIteration surfaces from the batch result generator as RuntimeError (PEP 479)",
                [("ping", ()), ("exhausted", ()), ("ping", ())])
        compare(daemon, "3 a method raising CommunicationError: sequential call loses the connection, batch delivers the exception",
                [("ping", ()), ("upstream_down", ()), ("ping", ())])
        compare(daemon, "4 unserializable result: the batch runs the calls after it too and loses all results",
                [("ping", ()), ("unserializable", ()), ("ping", ())])
        compare(daemon, "5 failing @oneway method inside a normal batch stops the batch and reports the error",
                [("ping", ()), ("fire", ()), ("ping", ())], settle=0.3)
        compare(daemon, "6 percall instance mode: one instance serves the whole batch",
                [("incr", ()), ("incr", ()), ("incr", ())], factory=Counter)
    finally:
        daemon.shutdown()
        t.join(5)
        daemon.close()


if __name__ == "__main__":
    main()
