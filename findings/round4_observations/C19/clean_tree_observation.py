import sys, os; sys.path.insert(0, os.getcwd())
import threading
import Pyro5.core, Pyro5.errors, Pyro5.serializers, Pyro5.nameserver, Pyro5.client
from Pyro5 import config
URI = Pyro5.core.URI

# 1. accepted string whose text form is rejected
u = URI("PYROMETA:,")
print("1.", repr(str(u)), end=" -> ")
try:
    URI(str(u)); print("accepted")
except Pyro5.errors.PyroError as x:
    print("REJECTED:", x)

# 2. PYROMETA uris are not hashable at all (state tuple contains a set)
try:
    hash(URI("PYROMETA:a,b")); print("2. hashable")
except TypeError as x:
    print("2. hash(URI('PYROMETA:a,b')) ->", x)

# 3. PYROMETA URI through json / msgpack: object comes back as a list, uri != original
u = URI("PYROMETA:a,b@host:1")
for name in ("serpent", "marshal", "json", "msgpack"):
    ser = Pyro5.serializers.serializers[name]
    u2 = ser.loads(ser.dumps(u))
    print("3.", name, "equal" if u2 == u else "NOT EQUAL", u2.__getstate__())

# 4. resolve(uri, delay_time=x) passes delay_time in the return_metadata slot of nameserver.lookup
config.COMMTIMEOUT = 5.0
nsuri, daemon, _ = Pyro5.nameserver.start_ns(host="localhost", port=0, enableBroadcast=False)
run = threading.Event(); run.set()
t = threading.Thread(target=daemon.requestLoop, kwargs={"loopCondition": run.is_set}, daemon=True); t.start()
try:
    daemon.nameserver.register("thing", "PYRO:obj@host:5")
    r = Pyro5.core.resolve("PYRONAME:thing@%s" % nsuri.location, delay_time=1.0)
    print("4. resolve(..., delay_time=1.0) ->", repr(r))
finally:
    run.clear(); daemon.shutdown(); t.join(10); daemon.close()
