import sys, os; sys.path.insert(0, os.getcwd())
# Clean-tree observation: a server method that itself calls another Pyro object gets its thread's
# response_annotations replaced by the annotations of the NESTED reply, which are then sent on to
# the outer client; annotations the outer method set before the nested call are dropped.
import threading
import Pyro5.api
from Pyro5.callcontext import current_context
Pyro5.api.config.POLLTIMEOUT = 0.2
Pyro5.api.config.COMMTIMEOUT = 10.0

@Pyro5.api.expose
class Inner(object):
    def work(self):
        current_context.response_annotations["INNR"] = b"inner server's annotation, meant for the inner call's client only"
        return 1

@Pyro5.api.expose
class Outer(object):
    inner_uri = None
    def work(self):
        current_context.response_annotations["OUTR"] = b"set by outer before nested call"
        with Pyro5.api.Proxy(Outer.inner_uri) as p:
            p._pyroTimeout = 10
            p.work()
        return 2

d1 = Pyro5.api.Daemon(host="127.0.0.1"); d2 = Pyro5.api.Daemon(host="127.0.0.1")
Outer.inner_uri = d1.register(Inner(), "inner")
uri = d2.register(Outer(), "outer")
stop = threading.Event()
ts = [threading.Thread(target=d.requestLoop, kwargs={"loopCondition": lambda: not stop.is_set()}, daemon=True) for d in (d1, d2)]
[t.start() for t in ts]
try:
    with Pyro5.api.Proxy(uri) as p:
        p._pyroTimeout = 10
        p.work()
        got = {k: bytes(v) for k, v in current_context.response_annotations.items()}
        print("outer client received annotations:", got)
        print("OBSERVED" if "INNR" in got or "OUTR" not in got else "not observed")
finally:
    stop.set(); d1.close(); d2.close(); [t.join(5) for t in ts]
