import sys, os; sys.path.insert(0, os.getcwd())
# Clean-tree corners of C08: a failing handshake that does NOT produce a CONNECTFAIL (and once not even a close).
import socket, threading, time
import Pyro5.server, Pyro5.errors as errors, Pyro5.protocol as protocol, Pyro5.serializers as serializers
from Pyro5 import config

M = serializers.serializers_by_id[serializers.MarshalSerializer.serializer_id]
def connect_msg(sid=None):
    d = M.dumps({"handshake": "x", "object": "Pyro.Daemon"})
    return protocol.SendingMessage(protocol.MSG_CONNECT, 0, 1, M.serializer_id if sid is None else sid, d).data

def converse(loc, payload, wait=2.0):
    h, p = loc.rsplit(":", 1)
    s = socket.create_connection((h, int(p)), timeout=5)
    s.sendall(payload); s.settimeout(wait)
    buf, closed = b"", False
    try:
        while True:
            c = s.recv(65536)
            if not c: closed = True; break
            buf += c
    except socket.timeout: pass
    except OSError: closed = True
    s.close()
    return ("type %d" % buf[6] if len(buf) >= 40 else "no reply"), ("closed" if closed else "STILL OPEN")

class D(Pyro5.server.Daemon):
    exc = None
    def validateHandshake(self, conn, data):
        if self.exc: raise self.exc
        return "ok"

config.SERVERTYPE = "thread"
d = D(host="127.0.0.1", port=0)
threading.Thread(target=d.requestLoop, daemon=True).start(); time.sleep(0.1)
print("1. CONNECT with unknown serializer id 99      :", converse(d.locationStr, connect_msg(99)))
d.exc = errors.ConnectionClosedError("go away")
print("2. validator raises ConnectionClosedError     :", converse(d.locationStr, connect_msg()))
d.exc = SystemExit("validator called sys.exit")
print("3. validator raises SystemExit (BaseException):", converse(d.locationStr, connect_msg()),
      "busy workers now:", len(d.transportServer.pool.busy))
d.exc = ValueError("plain reject")
print("   reference: validator raises ValueError     :", converse(d.locationStr, connect_msg()))
sys.stdout.flush(); os._exit(0)
