import sys, os; sys.path.insert(0, os.getcwd())
import threading, uuid
import Pyro5.api, Pyro5.client, Pyro5.server, Pyro5.errors
from Pyro5 import config

config.SERVERTYPE = "thread"
config.COMMTIMEOUT = 5.0


@Pyro5.api.expose
class Acc(object):
    def __init__(self): self.log = []
    def add(self, x): self.log.append(x); return len(self.log)
    def fail(self, x): self.log.append(("fail", x)); raise ValueError("boom %r" % (x,))
    def echo(self, x): self.log.append("echo"); return x
    def gateway_timeout(self): self.log.append("gw"); raise Pyro5.errors.TimeoutError("backend timed out")
    def getlog(self): return list(self.log)
    def reset(self): self.log = []


def collect(gen):
    out = []
    try:
        for r in gen():
            out.append(r)
    except Exception as x:
        out.append(("EXC", type(x).__name__, str(x)))
    return out


daemon = Pyro5.server.Daemon(host="localhost", port=0)
uri = daemon.register(Acc(), "acc")
t = threading.Thread(target=daemon.requestLoop, daemon=True); t.start()
try:
    print("--- 1. marshal: a failing call inside a batch loses all results (wrapper object is not marshallable)")
    for ser in ("serpent", "marshal"):
        with Pyro5.client.Proxy(uri) as p:
            p._pyroSerializer = ser; p._pyroTimeout = 5
            p.reset()
            b = Pyro5.client.BatchProxy(p); b.add(1); b.fail(2); b.add(3)
            print("   ", ser, "batch ->", collect(b), "state", p.getlog())
    print("--- 2. marshal: argument conversion is not applied to batched arguments")
    with Pyro5.client.Proxy(uri) as p:
        p._pyroSerializer = "marshal"; p._pyroTimeout = 5
        p.reset()
        print("    sequential echo(uuid) ->", p.echo(uuid.UUID(int=5)))
        b = Pyro5.client.BatchProxy(p); b.add(1); b.echo(uuid.UUID(int=5))
        print("    batch ->", collect(b), "state", p.getlog())
    print("--- 3. BatchProxy keeps its calls when the submit raises: the next use replays the executed prefix")
    with Pyro5.client.Proxy(uri) as p:
        p._pyroTimeout = 5
        p.reset()
        b = Pyro5.client.BatchProxy(p); b.add(1); b.notexposed(); b.add(2)
        print("    first submit ->", collect(b), "state", p.getlog())
        b.add(3)
        print("    second submit (only add(3) was added) ->", collect(b), "state", p.getlog())
    print("--- 4. a method raising a CommunicationError subclass: batch delivers it, single call drops the connection")
    with Pyro5.client.Proxy(uri) as p:
        p._pyroTimeout = 5
        b = Pyro5.client.BatchProxy(p); b.gateway_timeout()
        print("    batch ->", collect(b))
        try:
            p.gateway_timeout()
        except Exception as x:
            print("    sequential ->", type(x).__name__, x)
finally:
    daemon.shutdown(); t.join(5)
