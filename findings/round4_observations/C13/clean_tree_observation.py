import sys, os; sys.path.insert(0, os.getcwd())
# CLEAN-TREE OBSERVATION (not one of the seeded changes):
# thread server: a remote method that raises SystemExit (e.g. calls sys.exit()) ends the connection;
# hook + close run (finally block), but the worker thread dies before Pool.notify_done(),
# so the dead worker stays in pool.busy for ever (worker slot never released).
import threading, time
import Pyro5.server, Pyro5.client
from Pyro5 import config

threading.Timer(30, lambda: os._exit(2)).start()
config.SERVERTYPE = "thread"
config.POLLTIMEOUT = 0.2

@Pyro5.server.expose
class S(object):
    def bye(self):
        sys.exit(0)
    def ping(self):
        return 1

hooks = []
class D(Pyro5.server.Daemon):
    def clientDisconnect(self, conn):
        hooks.append(1)

d = D(host="127.0.0.1", port=0)
uri = d.register(S(), "s")
t = threading.Thread(target=d.requestLoop, daemon=True); t.start(); time.sleep(0.1)
pool = d.transportServer.pool
for i in range(3):
    p = Pyro5.client.Proxy(uri); p._pyroTimeout = 3
    try:
        p.bye()
    except Exception as x:
        print("client saw:", type(x).__name__)
    p._pyroRelease()
time.sleep(0.5)
print("hook calls:", len(hooks), " busy workers:", len(pool.busy), " alive among busy:", sum(w.is_alive() for w in pool.busy), " idle:", len(pool.idle))
os._exit(0)
