import sys, os; sys.path.insert(0, os.getcwd())
import threading, time
import Pyro5.api
from Pyro5 import config

@Pyro5.api.expose
class Thing(object):
    def name(self):
        return "thing"

@Pyro5.api.expose
class Factory(object):
    def __init__(self, thing):
        self.thing = thing
    def get(self):
        return self.thing

config.SERVERTYPE = "thread"
daemon = Pyro5.api.Daemon(host="127.0.0.1")
thing = Thing()
daemon.register(thing, "thing")
uri = daemon.register(Factory(thing), "factory")
threading.Thread(target=daemon.requestLoop, daemon=True).start()
time.sleep(0.2)
witness = Pyro5.api.Proxy(uri)
witness._pyroTimeout = 3
print("witness before:", type(witness.get()))
config.SERIALIZER = "marshal"
other = Pyro5.api.Proxy(uri)
other._pyroTimeout = 3
try:
    print("marshal client:", other.get())
except Exception as x:
    print("marshal client error", type(x), x)
config.SERIALIZER = "serpent"
try:
    print("witness after:", type(witness.get()))
except Exception as x:
    print("witness after error", type(x), x)
os._exit(0)
