import sys, os; sys.path.insert(0, os.getcwd())
import threading, time
import Pyro5.api
from Pyro5 import config

class Weird(Exception):
    def __str__(self):
        raise RuntimeError("no str for you")

@Pyro5.api.expose
class Obj(object):
    @Pyro5.api.callback
    def boom(self):
        raise Weird()
    def echo(self, x):
        return x

config.SERVERTYPE = sys.argv[1]
config.POLLTIMEOUT = 0.2
daemon = Pyro5.api.Daemon(host="127.0.0.1")
uri = daemon.register(Obj(), "obj")
t = threading.Thread(target=daemon.requestLoop, daemon=True)
t.start()
time.sleep(0.2)
witness = Pyro5.api.Proxy(uri); witness._pyroTimeout = 3
print("witness before:", witness.echo(1))
other = Pyro5.api.Proxy(uri); other._pyroTimeout = 3
try:
    other.boom()
except Exception as x:
    print("attacker got", type(x).__name__)
time.sleep(0.5)
try:
    print("witness after:", witness.echo(2))
except Exception as x:
    print("witness after error", type(x).__name__, x)
print("loop alive:", t.is_alive())
os._exit(0)
