import sys, os; sys.path.insert(0, os.getcwd())
import threading, time, socket
import Pyro5.api
from Pyro5 import config

@Pyro5.api.expose
class Obj(object):
    def echo(self, x):
        return x

config.SERVERTYPE = sys.argv[1]
config.POLLTIMEOUT = 0.2
config.COMMTIMEOUT = 0.0
config.THREADPOOL_SIZE = 3
config.THREADPOOL_SIZE_MIN = 1
daemon = Pyro5.api.Daemon(host="127.0.0.1")
uri = daemon.register(Obj(), "obj")
host, port = daemon.locationStr.split(":")
t = threading.Thread(target=daemon.requestLoop, daemon=True)
t.start()
time.sleep(0.2)
witness = Pyro5.api.Proxy(uri); witness._pyroTimeout = 3
print("witness before:", witness.echo(1))
silent = []
n = 1 if sys.argv[1] == "multiplex" else 3   # thread: fill remaining 2 workers, the 3rd one is denied in the accept thread
for _ in range(n):
    silent.append(socket.create_connection((host, int(port))))   # connects, sends nothing, stays open
    time.sleep(0.2)
try:
    print("witness after:", witness.echo(2))
except Exception as x:
    print("witness after error", type(x).__name__, x)
try:
    fresh = Pyro5.api.Proxy(uri); fresh._pyroTimeout = 3
    print("fresh client:", fresh.echo(3))
except Exception as x:
    print("fresh client error", type(x).__name__, x)
os._exit(0)
