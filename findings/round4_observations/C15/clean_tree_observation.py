import sys, os; sys.path.insert(0, os.getcwd())
"""
CLEAN-TREE observation (not one of the seeded changes).

NameServer.lookup() does not take NameServer.lock, and SqlStorage.__getitem__ reads
the (id, uri) row and the metadata rows with two separate SELECT statements that are
not inside one transaction.  A re-registration that commits between the two SELECTs
makes lookup(name, return_metadata=True) return a (uri, metadata) pair that never
existed: the old URI together with the new metadata (row id re-used), or the old URI
with empty metadata.

The reader's connection is a sqlite3.Connection subclass that pauses before its 2nd
statement, so the schedule is deterministic.  Prints what was observed; exit code 1
if the torn pair was seen.
"""
import shutil
import sqlite3
import tempfile
import threading

from Pyro5.nameserver import NameServer, SqlStorage

WAIT = 10.0
reader_ident = None
before_second = threading.Event()
go_on = threading.Event()
real_connect = sqlite3.connect


class SteppingConnection(sqlite3.Connection):
    count = 0

    def execute(self, *args, **kwargs):
        self.count += 1
        if self.count == 2 and not before_second.is_set():
            before_second.set()
            go_on.wait(WAIT)
        return super().execute(*args, **kwargs)


def connect(*args, **kwargs):
    if threading.get_ident() == reader_ident:
        kwargs["factory"] = SteppingConnection
    return real_connect(*args, **kwargs)


def main():
    global reader_ident
    tmpdir = tempfile.mkdtemp(prefix="pyro-c15-obs-")
    sqlite3.connect = connect
    try:
        ns = NameServer(SqlStorage(os.path.join(tmpdir, "ns.sqlite")))
        ns.register("svc", "PYRO:svc@host1:1111", metadata={"old-meta"})
        seen = []

        def reader():
            global reader_ident
            reader_ident = threading.get_ident()
            uri, meta = ns.lookup("svc", return_metadata=True)
            seen.append((str(uri), frozenset(meta)))

        def writer():
            if before_second.wait(WAIT):
                ns.register("svc", "PYRO:svc@host2:2222", metadata={"new-meta"})
            go_on.set()

        threads = [threading.Thread(target=reader, daemon=True), threading.Thread(target=writer, daemon=True)]
        for t in threads:
            t.start()
        for t in threads:
            t.join(WAIT * 2)
    finally:
        sqlite3.connect = real_connect
        shutil.rmtree(tmpdir, ignore_errors=True)
    legal = {("PYRO:svc@host1:1111", frozenset({"old-meta"})), ("PYRO:svc@host2:2222", frozenset({"new-meta"}))}
    print("lookup('svc', return_metadata=True) concurrent with a re-registration returned:", seen)
    if seen and seen[0] in legal:
        print("consistent")
        return 0
    print("TORN: this (uri, metadata) combination was never registered")
    return 1


if __name__ == "__main__":
    sys.exit(main())
