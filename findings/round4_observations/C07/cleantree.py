import sys, os; sys.path.insert(0, os.getcwd())
"""Clean-tree corners of property C07 (run on the UNCHANGED tree). Prints what the caller observes."""
import threading
import Pyro5.api, Pyro5.client, Pyro5.errors, Pyro5.server
from Pyro5 import config
config.COMMTIMEOUT = 5.0


class FutureError(Exception):
    pass


FutureError.__module__ = "builtins"   # e.g. a builtin exception of a newer Python than the client's


@Pyro5.api.expose
class Thing(object):
    def pyro_timeout(self):
        raise Pyro5.errors.TimeoutError("inner call timed out", 3)

    def security(self):
        raise Pyro5.errors.SecurityError("denied", 1)

    def index(self):
        raise IndexError("b", 1)

    def nan_attr(self):
        ex = ValueError("x")
        ex.ratio = float("nan")
        raise ex

    def nested(self):
        ex = ValueError("x")
        ex.cause = KeyError("inner")
        raise ex

    def group(self):
        raise ExceptionGroup("several", [ValueError(1), KeyError(2)])

    def future(self):
        raise FutureError("new in 3.99")

    def surrogate(self):
        raise ValueError("cannot open " + os.fsdecode(b"/tmp/caf\xe9"))

    def ok(self):
        return 42


def show(label, f):
    try:
        print("%-42s -> returned %r" % (label, f()))
    except BaseException as x:
        attrs = {k: v for k, v in vars(x).items() if k not in ("_pyroTraceback", "partialData")}
        print("%-42s -> %s.%s%r %r" % (label, type(x).__module__, type(x).__name__, x.args, attrs))


daemon = Pyro5.server.Daemon(host="127.0.0.1")
uri = daemon.register(Thing, "thing")
t = threading.Thread(target=daemon.requestLoop, daemon=True)
t.start()
try:
    with Pyro5.client.Proxy(uri) as p:
        p._pyroTimeout = 5.0
        show("1 Pyro5.errors.TimeoutError (serpent)", p.pyro_timeout)
        show("2 Pyro5.errors.SecurityError (serpent)", p.security)
        show("2   next call on same proxy", p.ok)
        show("4 NaN attribute (serpent)", p.nan_attr)
        show("4 nested exception attribute (serpent)", p.nested)
        show("4 ExceptionGroup (serpent)", p.group)
        show("5 unknown class in builtins namespace", p.future)
    with Pyro5.client.Proxy(uri) as p:
        p._pyroSerializer = "marshal"
        p._pyroTimeout = 5.0
        b = Pyro5.client.BatchProxy(p)
        b.ok(); b.index()
        show("3 batch member IndexError (marshal)", lambda: list(b()))
    with Pyro5.client.Proxy(uri) as p:
        p._pyroSerializer = "json"
        p._pyroTimeout = 5.0
        show("6 surrogate-escaped filename in args (json)", p.surrogate)
        show("6   next call", p.ok)
finally:
    daemon.shutdown()
    t.join(timeout=5)
