import sys, os; sys.path.insert(0, os.getcwd())
# clean-tree observation: with instance_mode="percall" all calls inside one batch share ONE instance
import threading
import Pyro5.api, Pyro5.server
from Pyro5 import config
config.COMMTIMEOUT = 5.0
config.POLLTIMEOUT = 0.5
made = []

@Pyro5.api.expose
@Pyro5.server.behavior(instance_mode="percall")
class PerCall(object):
    def __init__(self):
        made.append(self)
        self.serial = len(made)
        self.calls = 0
    def hit(self):
        self.calls += 1
        return self.serial, self.calls

class FalsyCreator(object):
    used = 0
    def __len__(self): return 0
    def __call__(self, clazz):
        FalsyCreator.used += 1
        return clazz()
fc = FalsyCreator()

@Pyro5.api.expose
@Pyro5.server.behavior(instance_mode="percall", instance_creator=fc)
class WithFalsyCreator(object):
    def ping(self): return "pong"

d = Pyro5.server.Daemon(host="127.0.0.1", port=0)
uri = d.register(PerCall, "pc")
uri2 = d.register(WithFalsyCreator, "fc")
t = threading.Thread(target=d.requestLoop, daemon=True); t.start()
try:
    with Pyro5.api.Proxy(uri) as p:
        p._pyroTimeout = 5.0
        print("plain calls:", p.hit(), p.hit())
        b = Pyro5.api.BatchProxy(p)
        b.hit(); b.hit(); b.hit()
        print("batched calls:", list(b()))
    with Pyro5.api.Proxy(uri2) as p:
        p._pyroTimeout = 5.0
        p.ping(); p.ping()
        print("falsy callable creator used:", FalsyCreator.used, "times for 2 calls")
finally:
    d.shutdown(); t.join(5)
