import sys, os; sys.path.insert(0, os.getcwd())
# CLEAN-TREE: Worker.run() only catches Exception.  A job that ends with a BaseException
# (an exposed method calling sys.exit(), which Daemon.handleRequest does not catch either)
# terminates the worker thread without pool.notify_done(): the dead worker stays in pool.busy
# forever, so len(idle)+len(busy) no longer matches the live threads and, with the pool "full"
# of dead workers, every later client is refused with "no free workers".
import threading, time
from Pyro5 import config, server, client, errors

config.SERVERTYPE = "thread"; config.THREADPOOL_SIZE_MIN = 1; config.THREADPOOL_SIZE = 1
config.POLLTIMEOUT = 0.2; config.COMMTIMEOUT = 2.0

@server.expose
class Thing(object):
    def quit(self):
        sys.exit(0)
    def hello(self):
        return "hello"

d = server.Daemon(host="127.0.0.1", port=0)
uri = d.register(Thing)
threading.Thread(target=d.requestLoop, daemon=True).start()
p = client.Proxy(uri); p._pyroTimeout = 2
try:
    p.quit()
except Exception as x:
    print("quit ->", type(x).__name__, x)
p._pyroRelease()
time.sleep(0.5)
pool = d.transportServer.pool
print("pool:", pool, " live worker threads:", [w.is_alive() for w in pool.busy | pool.idle])
p2 = client.Proxy(uri); p2._pyroTimeout = 2
try:
    print(p2.hello())
except errors.CommunicationError as x:
    print("OBSERVED: no worker thread is alive, yet:", x)
os._exit(0)
