import sys, os; sys.path.insert(0, os.getcwd())
# CLEAN-TREE: with the pool full, a client that connects but does not send its CONNECT message
# makes the accept loop block inside denyConnection() -> Daemon._handshake() -> recv_stub()
# (for COMMTIMEOUT seconds; forever with the default COMMTIMEOUT=0).  While it blocks, nobody is
# accepted: a well-behaved client arriving after a worker has become free is left waiting.
import socket, threading, time
from Pyro5 import config, protocol, serializers, socketutil, server

config.SERVERTYPE = "thread"; config.THREADPOOL_SIZE_MIN = 1; config.THREADPOOL_SIZE = 1
config.POLLTIMEOUT = 0.2      # COMMTIMEOUT stays at its default 0.0
d = server.Daemon(host="127.0.0.1", port=0)
threading.Thread(target=d.requestLoop, daemon=True).start()
host, port = d.locationStr.split(":"); loc = (host, int(port))
ser = serializers.serializers_by_id[serializers.MarshalSerializer.serializer_id]

def connect(timeout):
    conn = socketutil.SocketConnection(socketutil.create_socket(connect=loc, timeout=timeout), "x")
    data = ser.dumps({"handshake": "hello", "object": "Pyro.Daemon"})
    conn.send(protocol.SendingMessage(protocol.MSG_CONNECT, 0, 1, ser.serializer_id, data).data)
    return conn, protocol.recv_stub(conn, [protocol.MSG_CONNECTOK, protocol.MSG_CONNECTFAIL])

first, r = connect(3); assert r.type == protocol.MSG_CONNECTOK      # pool full
silent = socket.create_connection(loc, timeout=3)                      # connects, says nothing
time.sleep(0.5)
first.close(); time.sleep(0.5)                                         # worker is idle again
try:
    c, r = connect(3)
    print("accepted normally, type", r.type)
except Exception as x:
    print("OBSERVED: well-behaved client left waiting although a worker is idle:", type(x).__name__, x)
print("pool:", d.transportServer.pool)
silent.close()
os._exit(0)
