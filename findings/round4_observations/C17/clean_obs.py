import sys, os; sys.path.insert(0, os.getcwd())
import errno
from Pyro5 import socketutil, errors

class S:
    def __init__(self, script): self.script = list(script)
    def recv(self, size, flags=0):
        step = self.script.pop(0)
        if isinstance(step, int): raise OSError(step, os.strerror(step))
        return step
class SNoWaitall(S):
    def getpeercert(self): return None

for cls in (S, SNoWaitall):
    try:
        socketutil.receive_data(cls([b"abc", b"de", errno.ECONNRESET]), 10)
    except errors.ConnectionClosedError as x:
        print(cls.__name__, "fatal errno after 5 bytes ->", repr(x), "partialData:", getattr(x, "partialData", "<MISSING>"))
