import sys, os; sys.path.insert(0, os.getcwd())
# CLEAN-TREE observation: the member name is resolved with getattr() on the client Proxy, so
# member names that are real Proxy methods (_pyroInvoke, _pyroRelease, ...) are executed locally
# in the gateway instead of being forwarded.  Via _pyroInvoke's objectId parameter an authorised
# caller of an exposed object reaches OTHER (non-exposed) objects in the same daemon.
import io, json, threading, time
from wsgiref.util import setup_testing_defaults
threading.Thread(target=lambda: (time.sleep(40), os._exit(2)), daemon=True).start()
import Pyro5.server, Pyro5.nameserver
from Pyro5 import config
from Pyro5.utils import httpgateway

log = []

@Pyro5.server.expose
class Public(object):
    def hello(self):
        log.append("public.hello")
        return "hello"

@Pyro5.server.expose
class Vault(object):
    @property
    def secret(self):
        log.append("vault.secret read")
        return "the-crown-jewels"
    def ping(self):
        return "pong"

def http_get(path, query="", headers=None):
    environ = {"PATH_INFO": path, "REQUEST_METHOD": "GET", "QUERY_STRING": query,
               "wsgi.input": io.BytesIO(b""), "CONTENT_LENGTH": 0}
    setup_testing_defaults(environ)
    environ["wsgi.errors"] = io.StringIO()
    environ.update(headers or {})
    result = {}
    def start_response(status, hdrs):
        result["status"] = status
    body = b"".join(bytes(p) for p in httpgateway.pyro_app(environ, start_response))
    return result["status"], body

nsuri, nsdaemon, _ = Pyro5.nameserver.start_ns(host="127.0.0.1", port=0, enableBroadcast=False)
daemon = Pyro5.server.Daemon(host="127.0.0.1", port=0)
nsdaemon.nameserver.register("http.public", str(daemon.register(Public(), "pub")))
nsdaemon.nameserver.register("private.vault", str(daemon.register(Vault(), "vault")))
for d in (nsdaemon, daemon):
    threading.Thread(target=d.requestLoop, daemon=True).start()
config.NS_HOST = "127.0.0.1"; config.NS_PORT = nsuri.port
httpgateway.pyro_app.ns_regex = r"http\."
httpgateway.pyro_app.gateway_key = None
httpgateway.pyro_app.comm_timeout = 5.0

print("direct call to the vault :", http_get("/pyro/private.vault/secret"))
print("local proxy method       :", http_get("/pyro/http.public/_pyroRelease"), "backend log:", log)
st, body = http_get("/pyro/http.public/_pyroInvoke",
                    "methodname=__getattr__&vargs=secret&vargs=x&kwargs=x&objectId=vault")
print("via _pyroInvoke/objectId :", st, body, "backend log:", log)
violated = st.startswith("200") and b"crown" in body
print("OBSERVED (clean tree reaches a non-exposed object)" if violated else "not observed")
sys.stdout.flush(); os._exit(0)
