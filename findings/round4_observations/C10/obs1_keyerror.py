import sys, os; sys.path.insert(0, os.getcwd())
# clean-tree observation: the lifetime housekeeping removes a stream while next() on it is still
# running; when the generator then ends, get_next_stream_item's "del" raises KeyError, and the
# client sees KeyError instead of StopIteration.
import threading, time
import Pyro5.client, Pyro5.server, Pyro5.errors
from Pyro5 import config


@Pyro5.server.expose
class Producer(object):
    def slow_tail(self):
        yield "only-item"
        time.sleep(1.0)      # e.g. waiting for more data that never comes


config.SERVERTYPE = "thread"
config.POLLTIMEOUT = 0.1
config.ITER_STREAM_LIFETIME = 0.3
daemon = Pyro5.server.Daemon(host="127.0.0.1", port=0)
uri = daemon.register(Producer(), "producer")
t = threading.Thread(target=daemon.requestLoop, daemon=True)
t.start()
time.sleep(0.1)
rc = 0
try:
    with Pyro5.client.Proxy(uri) as p:
        p._pyroTimeout = 5
        stream = p.slow_tail()
        print("first:", next(stream))
        try:
            print("second:", next(stream))
        except StopIteration:
            print("second: StopIteration (as the property demands)")
        except Exception as x:
            print("second: %s: %r  <-- not StopIteration" % (type(x).__name__, x))
            rc = 1
finally:
    daemon.shutdown()
    t.join(5)
sys.exit(rc)
