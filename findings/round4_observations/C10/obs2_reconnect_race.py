import sys, os; sys.path.insert(0, os.getcwd())
# clean-tree observation: the client reconnects and fetches an item BEFORE the server has processed
# the disconnect of the old connection.  The late _clientDisconnect then puts the stream (which is in
# active use over the new, live connection) into linger state, and housekeeping drops it when the
# client pauses longer than the linger period between two items.
import threading, time
import Pyro5.client, Pyro5.server, Pyro5.errors
from Pyro5 import config


@Pyro5.server.expose
class Producer(object):
    def items(self):
        for i in range(5):
            yield i


class SlowDisconnectDaemon(Pyro5.server.Daemon):
    """forces the schedule: the first disconnect is processed only after 'release' is set"""
    release = threading.Event()
    first = True

    def _clientDisconnect(self, conn):
        if SlowDisconnectDaemon.first:
            SlowDisconnectDaemon.first = False
            self.release.wait(10)
        return super()._clientDisconnect(conn)


config.SERVERTYPE = "thread"
config.POLLTIMEOUT = 0.1
config.ITER_STREAM_LINGER = 0.3
config.ITER_STREAM_LIFETIME = 0.0
daemon = SlowDisconnectDaemon(host="127.0.0.1", port=0)
uri = daemon.register(Producer(), "producer")
t = threading.Thread(target=daemon.requestLoop, daemon=True)
t.start()
time.sleep(0.1)
rc = 0
try:
    p = Pyro5.client.Proxy(uri)
    p._pyroTimeout = 5
    stream = p.items()
    got = [next(stream)]
    p._pyroReconnect(tries=1)          # drop + immediately reconnect
    got.append(next(stream))           # served over the new connection (old one not yet cleaned up)
    daemon.release.set()               # now the server notices the old connection went away
    time.sleep(1.0)                    # connection stays open; client just pauses > linger
    try:
        got.append(next(stream))
        print("items:", got, "(stream survived)")
    except Pyro5.errors.PyroError as x:
        print("items so far:", got, "then %s: %s  <-- stream dropped although its connection never ended" % (type(x).__name__, x))
        rc = 1
    p._pyroRelease()
finally:
    daemon.release.set()
    daemon.shutdown()
    t.join(5)
sys.exit(rc)
