import sys, os; sys.path.insert(0, os.getcwd())
# CLEAN-TREE observation for C04: on the unchanged library some serializers hand back values that
# are neither plain data nor one of the closed set of classes, because the underlying codec creates
# them before recreate_classes() ever sees the tree.
import marshal, msgpack
import Pyro5.serializers as S

m = S.serializers["marshal"]
code = compile("__import__('os').getpid()", "<payload>", "eval")
v = m.loads(marshal.dumps([code, StopIteration, Ellipsis]))
print("marshal loads     ->", [type(x).__name__ for x in v], "(code object, the StopIteration *class*, Ellipsis)")
_, _, a, _ = m.loadsCall(marshal.dumps(("obj", "meth", [code], {})))
print("marshal loadsCall ->", type(a[0]).__name__)

mp = S.serializers["msgpack"]
v = mp.loads(msgpack.packb([msgpack.Timestamp(1, 2)]))
print("msgpack loads     ->", [type(x).__module__ + "." + type(x).__name__ for x in v],
      "(ext type -1 is handled inside msgpack, ext_hook is never consulted)")
_, _, a, _ = mp.loadsCall(msgpack.packb(("obj", "meth", [msgpack.Timestamp(1, 2)], {})))
print("msgpack loadsCall ->", type(a[0]).__module__ + "." + type(a[0]).__name__)
