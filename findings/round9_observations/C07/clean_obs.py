"""
Clean-tree observations for C07 (not seeds): cases where the UNCHANGED tree does not deliver the remote exception
as the property states. Prints what the caller observes; exits 0 always (it is a report, see CLEAN_TREE_OBSERVATIONS.md).
"""
import os
import sys
import threading

sys.path.insert(0, os.path.abspath(os.path.join(os.path.dirname(os.path.abspath(__file__)), "..")))

import Pyro5.core     # noqa: E402
import Pyro5.server   # noqa: E402
import Pyro5.client   # noqa: E402
import Pyro5.errors   # noqa: E402


@Pyro5.server.expose
class Thing(object):
    def boom(self, which):
        if which == "pyro-timeout":
            raise Pyro5.errors.TimeoutError("upstream timed out")
        if which == "pyro-protocol":
            raise Pyro5.errors.ProtocolError("upstream spoke gibberish")
        if which == "pyro-closed":
            raise Pyro5.errors.ConnectionClosedError("upstream went away")
        if which == "surrogate":
            raise ValueError("bad file name x\udc80y")
        if which == "lambda-arg":
            raise ValueError("bad callback", lambda x: 0)
        if which == "uri-arg":
            exc = ValueError("moved", Pyro5.core.URI("PYRO:a@h:1"))
            exc.where = Pyro5.core.URI("PYRO:b@h:2")
            raise exc
        if which == "oserror-filename":
            raise OSError(2, "No such file or directory", "data.bin")

    def ping(self):
        return "pong"


def observe(proxy, which, kind):
    try:
        if kind == "call":
            result = proxy.boom(which)
        else:
            batch = Pyro5.client.BatchProxy(proxy)
            batch.ping()
            batch.boom(which)
            result = list(batch())
        outcome = "RETURNED %r" % (result,)
    except Exception as x:
        attrs = {k: v for k, v in vars(x).items() if k != "_pyroTraceback"}
        if isinstance(x, OSError):
            attrs["filename(slot)"] = x.filename
        outcome = "%s.%s%.150r attrs=%r remote-tb=%s" % (type(x).__module__, type(x).__name__, x.args, attrs,
                                                       bool(getattr(x, "_pyroTraceback", None)))
    try:
        nxt = proxy.ping()
    except Exception as x:
        nxt = "FAILED %r" % (x,)
    print("  %-17s %-5s -> %s   [next call: %s]" % (which, kind, outcome, nxt))


def main():
    daemon = Pyro5.server.Daemon(host="127.0.0.1", port=0)
    uri = daemon.register(Thing, "thing")
    threading.Thread(target=daemon.requestLoop, daemon=True).start()
    cases = {
        "serpent": ["pyro-timeout", "pyro-protocol", "pyro-closed", "lambda-arg", "uri-arg", "oserror-filename"],
        "json": ["pyro-timeout", "surrogate", "lambda-arg"],
        "marshal": ["pyro-timeout", "lambda-arg"],
        "msgpack": ["pyro-timeout", "surrogate"],
    }
    try:
        for ser, whiches in cases.items():
            print(ser)
            with Pyro5.client.Proxy(uri) as proxy:
                proxy._pyroSerializer = ser
                proxy._pyroTimeout = 10
                for which in whiches:
                    for kind in ("call", "batch"):
                        observe(proxy, which, kind)
    finally:
        daemon.shutdown()


if __name__ == "__main__":
    main()
