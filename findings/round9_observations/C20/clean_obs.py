"""
Clean-tree observations for C20 (UNCHANGED tree). Exits 0 always; prints what it saw.

 1. a forwarded call whose connection breaks before the reply: the gateway's error mapping itself crashes
    (TypeError: bytearray is not JSON serializable) after it has called start_response('500 ...').
 2. a repeated $key parameter (?$key=a&$key=b) with a gateway key configured: AttributeError escapes from the app
    instead of a 403 (no Pyro traffic, though).
"""
import os
import sys
import io
import socket
import threading
from wsgiref.util import setup_testing_defaults

sys.path.insert(0, os.path.abspath(os.path.join(os.path.dirname(os.path.abspath(__file__)), "..")))

import Pyro5.api
import Pyro5.server
import Pyro5.nameserver
import Pyro5.utils.httpgateway as gw
from Pyro5 import config
from Pyro5.callcontext import current_context


@Pyro5.api.expose
class Thing(object):
    def __init__(self):
        self.calls = 0

    def work(self):
        self.calls += 1
        current_context.client.sock.shutdown(socket.SHUT_RDWR)   # connection lost before the reply
        return "done"


def http(path, query="", headers=None):
    environ = {"PATH_INFO": path, "REQUEST_METHOD": "GET", "QUERY_STRING": query, "wsgi.input": io.BytesIO(b"")}
    setup_testing_defaults(environ)
    environ["wsgi.errors"] = io.StringIO()
    environ.update(headers or {})
    seen = {}

    def start_response(status, hdrs, exc_info=None):
        seen["status"] = status
    try:
        body = b"".join(gw.pyro_app(environ, start_response))
        return seen.get("status"), body.decode("utf-8"), None
    except Exception as x:
        return seen.get("status"), None, x


def main():
    config.SERVERTYPE = "thread"
    nsuri, nsdaemon, _ = Pyro5.nameserver.start_ns(host="127.0.0.1", port=0, enableBroadcast=False)
    daemon = Pyro5.server.Daemon(host="127.0.0.1", port=0)
    thing = Thing()
    nsdaemon.nameserver.register("http.thing", daemon.register(thing))
    for d in (nsdaemon, daemon):
        threading.Thread(target=d.requestLoop, daemon=True).start()
    config.NS_HOST, config.NS_PORT = "127.0.0.1", nsuri.port
    gw.pyro_app.ns_regex = r"http\."
    gw.pyro_app.gateway_key = b"s3cret"
    gw.pyro_app.comm_timeout = config.COMMTIMEOUT = 5.0
    try:
        status, body, exc = http("/pyro/http.thing/work", headers={"HTTP_X_PYRO_GATEWAY_KEY": "s3cret"})
        print("1. connection lost before reply: start_response status=%r body=%r escaped exception=%r (object invoked %d time(s))"
              % (status, body, exc, thing.calls))
        status, body, exc = http("/pyro/http.thing/work", query="$key=wrong&$key=s3cret")
        print("2. repeated $key parameter     : start_response status=%r body=%r escaped exception=%r (object invoked %d time(s))"
              % (status, body, exc, thing.calls))
    finally:
        gw._nameserver = None
        for d in (daemon, nsdaemon):
            d.shutdown()


if __name__ == "__main__":
    main()
