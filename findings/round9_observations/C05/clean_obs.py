"""
C05 - observations on the UNCHANGED tree (not used as seeds). Each scenario runs in a child process.
Exit status 1 if at least one observation reproduces (that is what happens on the unchanged tree), 0 otherwise.

 1. thread server, pool exhausted by well-behaved clients, one extra client that connects and says nothing:
    the accept loop itself waits for that client's handshake (denyConnection -> Daemon._handshake -> recv), so
    nobody can connect any more, even after a worker has become free again.
 2. multiplex server without COMMTIMEOUT: a client that connects and says nothing (or stops halfway a message)
    blocks the single thread in recv: all other clients hang for as long as that client stays connected.
 3. (outside the literal statement, which speaks of Exception subclasses) a method that raises SystemExit:
    thread server: the worker thread dies and stays in Pool.busy for ever; multiplex server: requestLoop ends.
"""
import os
import sys
import socket
import subprocess
import threading
import time

ROOT = os.path.abspath(os.path.join(os.path.dirname(os.path.abspath(__file__)), ".."))
sys.path.insert(0, ROOT)

from Pyro5 import config, server, client   # noqa: E402


@server.expose
class Echo(object):
    def echo(self, x):
        return x

    def bail(self):
        raise SystemExit(3)


def start(servertype):
    config.SERVERTYPE = servertype
    config.COMMTIMEOUT = 0.0
    config.POLLTIMEOUT = 0.5
    daemon = server.Daemon(host="127.0.0.1", port=0)
    uri = daemon.register(Echo(), "echo")
    t = threading.Thread(target=daemon.requestLoop, daemon=True)
    t.start()
    host, port = daemon.locationStr.split(":")
    return daemon, uri, host, int(port), t


def try_fresh(uri, timeout=3.0):
    try:
        with client.Proxy(uri) as p:
            p._pyroTimeout = timeout
            return "ok" if p.echo(1) == 1 else "wrong reply"
    except Exception as x:
        return type(x).__name__


def scenario1():
    config.THREADPOOL_SIZE = 2
    config.THREADPOOL_SIZE_MIN = 2
    daemon, uri, host, port, _ = start("thread")
    w1, w2 = client.Proxy(uri), client.Proxy(uri)
    w1.echo(1), w2.echo(2)
    print("  pool with 2 workers, 2 witnesses connected:", daemon.transportServer.pool)
    silent = socket.create_connection((host, port))     # connects, sends nothing
    time.sleep(0.5)
    w1._pyroRelease()
    time.sleep(0.5)
    print("  one witness left, a worker is free again:", daemon.transportServer.pool)
    r1 = try_fresh(uri)
    print("  fresh connection while the silent client is still there:", r1)
    silent.close()
    time.sleep(0.5)
    r2 = try_fresh(uri)
    print("  fresh connection after the silent client went away:", r2)
    return r1 != "ok"


def scenario2():
    daemon, uri, host, port, _ = start("multiplex")
    w = client.Proxy(uri)
    w._pyroTimeout = 3.0
    w.echo(1)
    silent = socket.create_connection((host, port))     # connects, sends nothing
    time.sleep(0.3)
    try:
        r1 = "ok" if w.echo(2) == 2 else "wrong reply"
    except Exception as x:
        r1 = type(x).__name__
    print("  witness call while a silent client is connected (no COMMTIMEOUT):", r1)
    silent.close()
    return r1 != "ok"


def scenario3(servertype):
    daemon, uri, host, port, loop_thread = start(servertype)
    w = client.Proxy(uri)
    w._pyroTimeout = 3.0
    w.echo(1)
    a = client.Proxy(uri)
    a._pyroTimeout = 2.0
    try:
        a.bail()
        r = "returned"
    except Exception as x:
        r = type(x).__name__
    a._pyroRelease()
    time.sleep(0.5)
    print("  [%s] caller of the method that raises SystemExit sees: %s" % (servertype, r))
    bad = False
    if servertype == "thread":
        pool = daemon.transportServer.pool
        dead = [wk.name for wk in pool.busy if not wk.is_alive()]
        print("  [thread] pool: %r, dead threads counted as busy: %s" % (pool, dead))
        bad = bool(dead)
    else:
        print("  [multiplex] request loop thread alive:", loop_thread.is_alive())
        bad = not loop_thread.is_alive()
    return bad


def child(name):
    if name == "1":
        bad = scenario1()
    elif name == "2":
        bad = scenario2()
    else:
        bad = scenario3(name[1:])
    sys.stdout.flush()
    os._exit(1 if bad else 0)


if __name__ == "__main__":
    if len(sys.argv) == 2:
        child(sys.argv[1])
    reproduced = []
    for name, title in (("1", "1. thread server: silent client while the pool is exhausted"),
                        ("2", "2. multiplex server, no COMMTIMEOUT: silent client"),
                        ("3thread", "3a. SystemExit from a method, thread server"),
                        ("3multiplex", "3b. SystemExit from a method, multiplex server")):
        print(title)
        sys.stdout.flush()
        try:
            rc = subprocess.call([sys.executable, os.path.abspath(__file__), name], timeout=40)
        except subprocess.TimeoutExpired:
            rc = "timeout"
        print("  -> %s" % ("REPRODUCED" if rc else "not reproduced"))
        if rc:
            reproduced.append(name)
    sys.exit(1 if reproduced else 0)
