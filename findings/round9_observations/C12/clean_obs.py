"""
C12 - two observations on the UNCHANGED tree (see CLEAN_TREE_OBSERVATIONS.md).  Prints what it sees;
exits 1 if at least one of the observations reproduces, 0 if none does.
"""
import os
import sys
import threading

sys.path.insert(0, os.path.abspath(os.path.join(os.path.dirname(os.path.abspath(__file__)), "..")))

import Pyro5.api                                   # noqa: E402
from Pyro5 import config                           # noqa: E402
from Pyro5.callcontext import current_context      # noqa: E402


def names(annotations):
    return {k: bytes(v).decode() for k, v in annotations.items()}


@Pyro5.api.expose
class Backend(object):
    def annotated(self):
        current_context.response_annotations["BACK"] = b"backend-reply-to-the-front-server"
        return "ok"


@Pyro5.api.expose
class Front(object):
    def __init__(self, backend_uri):
        self.backend_uri = backend_uri

    def nested(self):
        current_context.response_annotations["FRNT"] = b"set-by-front-before-nested-call"
        with Pyro5.api.Proxy(self.backend_uri) as backend:
            backend.annotated()
        return "done"

    def hello(self):
        return "hello"


handshake_saw = []


class CheckingDaemon(Pyro5.api.Daemon):
    def validateHandshake(self, conn, data):
        ctx = current_context
        handshake_saw.append({"annotations": names(ctx.annotations), "client_is_this_conn": ctx.client is conn,
                              "peer": ctx.client_sock_addr, "real_peer": conn.sock.getpeername()})
        return "hello"


def main():
    reproduced = 0
    # --- observation 1: nested call replaces the serving thread's response annotations -------------------
    config.SERVERTYPE = "thread"
    backend_daemon = Pyro5.api.Daemon(host="127.0.0.1", port=0)
    backend_uri = backend_daemon.register(Backend(), "backend")
    front_daemon = Pyro5.api.Daemon(host="127.0.0.1", port=0)
    front_uri = front_daemon.register(Front(str(backend_uri)), "front")
    loops = [threading.Thread(target=d.requestLoop, daemon=True) for d in (backend_daemon, front_daemon)]
    for t in loops:
        t.start()
    try:
        with Pyro5.api.Proxy(front_uri) as front:
            front.nested()
            got = names(current_context.response_annotations)
        print("1. client called front.nested(); response annotations received: %r" % got)
        if "BACK" in got:
            print("   -> the annotation the BACKEND's method set for its reply to the front server travelled on with the")
            print("      front server's reply to the original client (a different call, a different client)")
            reproduced += 1
        if "FRNT" not in got:
            print("   -> and the annotation the front method set itself before the nested call was dropped")
    finally:
        front_daemon.shutdown()
        backend_daemon.shutdown()
        for t in loops:
            t.join(5)

    # --- observation 2: validateHandshake runs with the previous request's context -------------------------
    config.SERVERTYPE = "multiplex"
    daemon = CheckingDaemon(host="127.0.0.1", port=0)
    uri = daemon.register(Front("unused"), "front")
    loop = threading.Thread(target=daemon.requestLoop, daemon=True)
    loop.start()
    try:
        p1 = Pyro5.api.Proxy(uri)
        p1._pyroBind()
        current_context.annotations = {"USER": b"credentials-of-client-1"}
        p1.hello()
        current_context.annotations = {}
        del handshake_saw[:]
        p2 = Pyro5.api.Proxy(uri)      # second client, sends no annotations
        p2._pyroBind()
        saw = handshake_saw[-1]
        print("2. validateHandshake for client 2 (which sent no annotations) saw: %r" % saw)
        if saw["annotations"] or not saw["client_is_this_conn"]:
            print("   -> current_context inside validateHandshake still holds client 1's last request "
                  "(annotations, connection, peer address)")
            reproduced += 1
        p1._pyroRelease()
        p2._pyroRelease()
    finally:
        daemon.shutdown()
        loop.join(5)
    print("%d of 2 observations reproduced" % reproduced)
    sys.exit(1 if reproduced else 0)


if __name__ == "__main__":
    main()
