"""
Clean-tree observations for C11 (batch == the same calls one after another).
Exits 0 always; it only prints what the UNCHANGED tree does.

 1. a call whose RESULT cannot be serialized: one by one the caller gets an error for that
    call and stops; in a batch the server runs ALL later calls too, then the whole reply fails.
 2. a class registered with instance_mode "percall": one by one every call gets a fresh
    instance; a batch runs all its calls on one single instance.
"""
import os
import sys
import threading

sys.path.insert(0, os.path.abspath(os.path.join(os.path.dirname(os.path.abspath(__file__)), "..")))

import Pyro5.client  # noqa: E402
import Pyro5.server  # noqa: E402

EXECUTED = {"seq": [], "batch": []}


@Pyro5.server.expose
class Thing(object):
    def __init__(self, tag):
        self.tag = tag

    def add(self, n):
        EXECUTED[self.tag].append(("add", n))
        return n

    def handle(self):
        EXECUTED[self.tag].append(("handle",))
        return threading.Lock()     # no serializer can transport this


@Pyro5.server.expose
@Pyro5.server.behavior(instance_mode="percall")
class PerCall(object):
    def __init__(self):
        self.count = 0

    def bump(self):
        self.count += 1
        return self.count


def main():
    daemon = Pyro5.server.Daemon(host="localhost", port=0)
    seq_uri = daemon.register(Thing("seq"), "thing.seq")
    batch_uri = daemon.register(Thing("batch"), "thing.batch")
    percall_uri = daemon.register(PerCall, "percall")
    t = threading.Thread(target=daemon.requestLoop, daemon=True)
    t.start()
    try:
        calls = [("add", (1,)), ("handle", ()), ("add", (2,)), ("add", (3,))]
        with Pyro5.client.Proxy(seq_uri) as p:
            for name, args in calls:
                try:
                    getattr(p, name)(*args)
                except Exception as x:
                    print("1. sequential: call %s failed with %s -> caller stops" % (name, type(x).__name__))
                    break
        with Pyro5.client.Proxy(batch_uri) as p:
            batch = Pyro5.client.BatchProxy(p)
            for name, args in calls:
                getattr(batch, name)(*args)
            try:
                print("1. batch results:", list(batch()))
            except Exception as x:
                print("1. batch: submission failed with %s (results of the earlier calls are lost)" % type(x).__name__)
        print("1. executed one by one:", EXECUTED["seq"])
        print("1. executed in batch  :", EXECUTED["batch"])
        if EXECUTED["seq"] != EXECUTED["batch"]:
            print("1. OBSERVATION: the batch executed calls after the first failing one")

        with Pyro5.client.Proxy(percall_uri) as p:
            seq = [p.bump(), p.bump(), p.bump()]
        with Pyro5.client.Proxy(percall_uri) as p:
            batch = Pyro5.client.BatchProxy(p)
            batch.bump(), batch.bump(), batch.bump()
            bat = list(batch())
        print("2. percall one by one:", seq, " in a batch:", bat)
        if seq != bat:
            print("2. OBSERVATION: a batch shares one instance among its calls where separate calls each get a fresh one")
    finally:
        daemon.shutdown()
        t.join(5)
        daemon.close()


if __name__ == "__main__":
    main()
