"""
Clean-tree observation: a stream that went into lingering (ITER_STREAM_LINGER > 0 at disconnect time) is never
forgotten if ITER_STREAM_LINGER is set to 0 ("no linger") afterwards: _clientDisconnect and _housekeeping each read
the config item on their own, and housekeeping skips the linger sweep entirely when the value is 0.
Prints what it sees; exits 0 always (this is an observation, not a seed).
"""
import os
import sys
import time
import threading

sys.path.insert(0, os.path.abspath(os.path.join(os.path.dirname(os.path.abspath(__file__)), "..")))

import Pyro5.api          # noqa: E402
import Pyro5.errors       # noqa: E402
from Pyro5 import config  # noqa: E402


@Pyro5.api.expose
class Source(object):
    def items(self):
        for i in range(5):
            yield i


config.SERVERTYPE = "thread"
config.POLLTIMEOUT = 0.2
config.ITER_STREAM_LINGER = 0.5
daemon = Pyro5.api.Daemon(host="127.0.0.1", port=0)
uri = daemon.register(Source, "source")
threading.Thread(target=daemon.requestLoop, daemon=True).start()
p = Pyro5.api.Proxy(uri)
s = p.items()
print("first item:", next(s))
p._pyroRelease()
time.sleep(0.2)
config.ITER_STREAM_LINGER = 0       # operator switches lingering off at runtime
time.sleep(1.5)                     # far beyond the 0.5s linger period that applied at disconnect time
print("table size long after the linger period:", len(daemon.streaming_responses))
p._pyroReconnect()
try:
    print("client coming back got an ITEM:", next(s), " <-- stream was never forgotten")
except Pyro5.errors.PyroError as x:
    print("client coming back got an error (fine):", x)
p._pyroRelease()
daemon.shutdown()
