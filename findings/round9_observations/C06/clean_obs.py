"""Clean-tree observations for C06: byte strings the UNCHANGED decoder accepts although they are not what any
encoder produces / do not re-encode to an equivalent message.  Prints what it sees; always exits 0."""
import os
import sys
import struct
import zlib

sys.path.insert(0, os.path.abspath(os.path.join(os.path.dirname(__file__), "..")))
from Pyro5 import protocol      # noqa: E402
from Pyro5.protocol import ReceivingMessage, SendingMessage, FLAGS_COMPRESSED      # noqa: E402


def hdr(flags, dsize, asize, reserved=0, corr=b"\0" * 16):
    return struct.pack(protocol._header_format, b"PYRO", protocol.PROTOCOL_VERSION, 4, 1, flags, 7, dsize, asize,
                       corr, reserved, protocol._magic_number)


# 1. trailing garbage after the end of the zlib stream is silently ignored
body = zlib.compress(b"a" * 200) + b"TRAILING-JUNK"
m = ReceivingMessage(hdr(FLAGS_COMPRESSED, len(body), 0), body)
print("1. compressed body + 13 junk bytes: accepted, payload length", len(m.data), "(junk ignored)")

# 2. two annotation chunks with the same id: accepted, the first one vanishes; re-encoding gives a shorter message
ann = struct.pack("!4sI", b"AAAA", 1) + b"x" + struct.pack("!4sI", b"AAAA", 1) + b"y"
m = ReceivingMessage(hdr(0, 2, len(ann)), ann + b"hi")
re = SendingMessage(m.type, m.flags, m.seq, m.serializer_id, bytes(m.data), {k: bytes(v) for k, v in m.annotations.items()})
print("2. duplicate annotation id: accepted as", {k: bytes(v) for k, v in m.annotations.items()},
      "- original", 40 + len(ann) + 2, "bytes, re-encoded", len(re.data), "bytes")

# 3. the reserved header field is not checked
ReceivingMessage(hdr(0, 2, 0, reserved=0xbeef), b"hi")
print("3. reserved field 0xbeef: accepted")

# 4. a non-zero correlation id without FLAGS_CORR_ID is accepted and exposed as msg.corr_id
m = ReceivingMessage(hdr(0, 2, 0, corr=b"x" * 16), b"hi")
print("4. corr id bytes without the CORR_ID flag: accepted, corr_id =", bytes(m.corr_id))

# 5. the exact-tiling check of the annotation walk is an `assert`: AssertionError (not ProtocolError), gone under python -O
ann = struct.pack("!4sI", b"AAAA", 5) + b"x"
try:
    m = ReceivingMessage(hdr(0, 4, len(ann)), ann + b"hihi")
    print("5. annotation chunk overrunning into the payload: ACCEPTED", {k: bytes(v) for k, v in m.annotations.items()}, bytes(m.data))
except AssertionError:
    print("5. annotation chunk overrunning into the payload: AssertionError (would be accepted under python -O)")
