"""
Observations on the UNCHANGED tree that already contradict the C16 property statement.
Each observation prints what happened; the script exits 0 always (it is a report, not a test).
"""
import gc
import os
import sys
import threading

sys.path.insert(0, os.path.abspath(os.path.join(os.path.dirname(os.path.abspath(__file__)), "..")))

import Pyro5.client  # noqa: E402
import Pyro5.core  # noqa: E402
import Pyro5.errors  # noqa: E402
import Pyro5.server  # noqa: E402
import Pyro5.serializers  # noqa: E402


@Pyro5.server.expose
class Thing(object):
    def __init__(self, name):
        self.name = name

    def whoami(self):
        return self.name


@Pyro5.server.expose
class Shelf(object):
    item = None

    def get(self):
        return self.item


Pyro5.serializers.SerializerBase.register_dict_to_class("__main__.Thing", lambda cn, d: Thing(d["name"]))


def obs1_stale_weak_finalizer():
    print("== OBS 1: finalizer of an earlier weak registration unregisters the id's NEW holder")
    with Pyro5.server.Daemon(port=0) as d:
        o1, o2 = Thing("o1"), Thing("o2")
        d.register(o1, "x", weak=True)
        d.unregister("x")                   # (variant: d.register(o2, "x", force=True) gives the same)
        d.register(o2, "x")                 # strong registration of a different object under the free id
        print("   before gc of o1: registered =", sorted(d.objectsById))
        del o1
        gc.collect()
        print("   after  gc of o1: registered =", sorted(d.objectsById))
        print("   -> VIOLATION" if "x" not in d.objectsById else "   -> ok",
              "(o2 was never unregistered, yet its id is", "unknown)" if "x" not in d.objectsById else "known)")


def obs2_forced_chain_leaves_reachable_but_unmarked():
    print("== OBS 2: register(o,'n1'); register(o,'n2',force=True); unregister(o) leaves o reachable under 'n1'")
    d = Pyro5.server.Daemon(host="localhost", port=0)
    shelf = Shelf()
    suri = d.register(shelf, "shelf")
    t = threading.Thread(target=d.requestLoop, daemon=True)
    t.start()
    try:
        o = Thing("o")
        d.register(o, "n1")
        d.register(o, "n2", force=True)
        d.unregister(o)                     # removes only 'n2' (the last id), strips _pyroId/_pyroDaemon
        print("   registered =", sorted(d.objectsById), "| hasattr(o,'_pyroId') =", hasattr(o, "_pyroId"))
        with Pyro5.client.Proxy(d.uriFor("n1")) as p:
            print("   call to 'n1' reaches:", p.whoami())
        shelf.item = o
        with Pyro5.client.Proxy(suri) as p:
            got = p.get()
        print("   returning o (still registered under 'n1') arrives as:", type(got).__name__)
        try:
            d.uriFor(o)
        except Pyro5.errors.DaemonError as x:
            print("   uriFor(o):", x)
        print("   -> VIOLATION: o is registered under 'n1' (listed, reachable) but travels by value / has no uri")
    finally:
        d.shutdown()
        t.join(5)
        d.close()


def obs3_register_check_then_act():
    print("== OBS 3: two threads register different objects under the same id, neither forced: both succeed")
    gate_reached, gate_resume = threading.Event(), threading.Event()

    class Slow(Thing):
        def __setattr__(self, name, value):
            if name == "_pyroId" and self.__dict__.get("name") == "slow":
                gate_reached.set()
                gate_resume.wait(10)
            object.__setattr__(self, name, value)

    with Pyro5.server.Daemon(port=0) as d:
        slow, quick = Slow("slow"), Thing("quick")
        result = {}

        def reg_slow():
            try:
                d.register(slow, "same")
                result["slow"] = "registered"
            except Exception as x:
                result["slow"] = repr(x)
        th = threading.Thread(target=reg_slow)
        th.start()
        gate_reached.wait(10)               # 'slow' passed the "id already registered?" check, not stored yet
        d.register(quick, "same")
        result["quick"] = "registered"
        gate_resume.set()
        th.join(10)
        print("   results:", result, "| objectsById['same'] is", d.objectsById["same"].name)
        print("   -> VIOLATION: the second registration of id 'same' was not refused; 'quick' was silently replaced")


def obs4_at_sign_in_id():
    print("== OBS 4: an id containing '@' is accepted but the returned uri addresses another id / host")
    with Pyro5.server.Daemon(host="localhost", port=0) as d:
        uri = d.register(Thing("t"), "a@b")
        print("   registered id 'a@b' -> uri.object=%r uri.host=%r ; ids: %s" % (uri.object, uri.host, sorted(d.objectsById)))


if __name__ == "__main__":
    obs1_stale_weak_finalizer()
    obs2_forced_chain_leaves_reachable_but_unmarked()
    obs3_register_check_then_act()
    obs4_at_sign_in_id()
