"""
Observations on the UNCHANGED tree for property C02 (see CLEAN_TREE_OBSERVATIONS.md).
Prints what happens; always exits 0.
"""
import os
import sys
import threading

sys.path.insert(0, os.path.abspath(os.path.join(os.path.dirname(os.path.abspath(__file__)), "..")))

import Pyro5.api
import Pyro5.core
import Pyro5.errors
from Pyro5 import config

config.COMMTIMEOUT = 5
LOG = []


@Pyro5.api.expose
class Helper(object):
    """an exposed class of its own (for instance also registered elsewhere)"""
    def __init__(self, tag="server-made"):
        LOG.append("Helper.__init__(%r)" % (tag,))

    def __call__(self, *args):
        LOG.append("Helper.__call__%r" % (args,))
        return "helper called"

    def work(self):
        return "work"


class Owner(object):
    Factory = Helper                 # plain class attribute that happens to be an exposed class

    def __init__(self):
        self.helper = Helper()       # plain instance attribute (nested helper object)

    @Pyro5.api.expose
    def ping(self):
        return "pong"


class SetterOnly(object):
    def __init__(self):
        self._v = 1

    @property
    def level(self):                 # the getter is NOT decorated with @expose
        LOG.append("SetterOnly.level getter")
        return self._v

    @Pyro5.api.expose
    @level.setter
    def level(self, v):              # only the setter is
        self._v = v


@Pyro5.api.behavior(instance_mode="percall")
class PerCall(object):
    def __init__(self):
        LOG.append("PerCall.__init__")

    @Pyro5.api.expose
    def ping(self):
        return "pong"


def raw(proxy, name, args=(), flags=0):
    try:
        return "result", proxy._pyroInvoke(name, args, {}, flags)
    except Pyro5.errors.CommunicationError as x:
        return "COMMUNICATION ERROR (no error reply)", x
    except Exception as x:
        return "error", x


def main():
    daemon = Pyro5.api.Daemon(host="127.0.0.1", port=0)
    uri_owner = daemon.register(Owner(), "owner")
    uri_setter = daemon.register(SetterOnly(), "setter")
    uri_percall = daemon.register(PerCall, "percall")
    threading.Thread(target=daemon.requestLoop, daemon=True).start()
    try:
        with Pyro5.api.Proxy(uri_owner) as p:
            p._pyroBind()
            print("1. advertised for owner:", sorted(p._pyroMethods), sorted(p._pyroAttrs))
            del LOG[:]
            print("   call 'helper'  (plain instance attribute)  ->", raw(p, "helper", ("x",)), "log:", LOG)
            del LOG[:]
            print("   call 'Factory' (plain class attribute)     ->", raw(p, "Factory", ("made-by-peer",)), "log:", LOG)
        with Pyro5.api.Proxy(uri_setter) as p:
            p._pyroBind()
            print("2. advertised for setter-only-exposed property:", sorted(p._pyroMethods), sorted(p._pyroAttrs))
            del LOG[:]
            print("   attribute read 'level' ->", raw(p, "__getattr__", ("level",)), "log:", LOG)
        with Pyro5.api.Proxy(uri_percall) as p:
            p._pyroBind()
            del LOG[:]
            print("3. refused request on a percall class '_secret' ->", raw(p, "_secret"), "log:", LOG)
    finally:
        daemon.shutdown()


if __name__ == "__main__":
    main()
