"""
Observations on the UNCHANGED tree around property C17 (not used as seeds). Exit code is always 0; it only prints.
"""
import errno
import os
import sys
import time

sys.path.insert(0, os.path.abspath(os.path.join(os.path.dirname(os.path.abspath(__file__)), "..")))

from Pyro5 import socketutil, errors  # noqa: E402


class Escape(BaseException):
    pass


class ZeroSendSocket:
    """timeout-mode socket whose send() accepts 0 bytes (returns 0) - e.g. a wrapper / fake / exotic transport"""
    def __init__(self, limit):
        self.calls = 0
        self.limit = limit

    def gettimeout(self):
        return 1.0

    def send(self, data):
        self.calls += 1
        if self.calls > self.limit:
            raise Escape()
        return 0


def obs_zero_send():
    sock = ZeroSendSocket(200000)
    t0 = time.time()
    try:
        socketutil.send_data(sock, b"abc")
    except Escape:
        print("obs 1: send_data (timeout mode) called send() %d times in %.2fs without sleeping, raising or giving up "
              "when send() keeps returning 0: a busy loop that never ends (no TimeoutError although gettimeout()=1.0)"
              % (sock.calls - 1, time.time() - t0))


class EtimedoutSocket:
    """delivers 3 bytes, then the kernel reports ETIMEDOUT (keepalive / retransmission failure: a FATAL errno)"""
    def __init__(self):
        self.step = 0

    def recv(self, n, flags=0):
        self.step += 1
        if self.step == 1:
            return b"abc"
        raise OSError(errno.ETIMEDOUT, os.strerror(errno.ETIMEDOUT))


def obs_etimedout():
    try:
        socketutil.receive_data(EtimedoutSocket(), 10)
    except errors.TimeoutError as x:
        print("obs 2: fatal errno ETIMEDOUT after 3 received bytes is reported as TimeoutError(%r) with partialData=%r "
              "(python maps the errno to builtin TimeoutError == socket.timeout, so the 'connection lost' branch that "
              "stores the bytes received so far is never reached)" % (str(x), getattr(x, "partialData", "<absent>")))
    except errors.ConnectionClosedError as x:
        print("obs 2: ConnectionClosedError partialData=%r" % bytes(x.partialData))


class AlwaysEagainSocket:
    def __init__(self):
        self.calls = 0

    def recv(self, n, flags=0):
        self.calls += 1
        if self.calls > 6:
            raise Escape()
        raise OSError(errno.EAGAIN, os.strerror(errno.EAGAIN))


def obs_unbounded_retry():
    sock = AlwaysEagainSocket()
    t0 = time.time()
    try:
        socketutil.receive_data(sock, 4)
    except Escape:
        print("obs 3: receive_data retried EAGAIN %d times in %.2fs with an ever growing sleep (0.1s more each time) and "
              "no upper bound or relation to the socket's timeout; a socket that reports its timeout as EAGAIN "
              "(kernel level SO_RCVTIMEO on a blocking socket) therefore never times out" % (sock.calls - 1, time.time() - t0))


if __name__ == "__main__":
    obs_zero_send()
    obs_etimedout()
    obs_unbounded_retry()
