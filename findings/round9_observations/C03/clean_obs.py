"""
Observations on the UNCHANGED tree (not used as seeds).  Prints what it sees; always exits 0.

 1. A proxy over a user supplied connected socket (Proxy(connected_socket=...), Daemon(connected_socket=...)) cannot
    recover from a communication error: _pyroRelease() drops the connection object (keep_open, so the socket stays
    open and healthy), and the next call tries to connect to '<<connected-socket>>:0'.
 2. A remote method whose OWN exception is a Pyro5 TimeoutError / ConnectionClosedError (typical for a server object
    that is itself a Pyro client of some backend) never gets that exception delivered: Daemon.handleRequest sends no
    error reply for a CommunicationError and re-raises it, so the server drops the client's (healthy) connection.
    The caller sees ConnectionClosedError instead of the exception its invocation produced, and with MAX_RETRIES=N
    the method is executed 1+N times.  (Within the letter of the property - a communication error is raised and the
    run count stays <= 1+N - but the transport had no fault at all.)
"""
import os
import sys
import socket
import threading
import time

sys.path.insert(0, os.path.abspath(os.path.join(os.path.dirname(os.path.abspath(__file__)), "..")))

import Pyro5.api            # noqa: E402
import Pyro5.errors         # noqa: E402
from Pyro5 import config    # noqa: E402


class Target(object):
    def __init__(self):
        self.runs = 0

    @Pyro5.api.expose
    def slow(self, seconds):
        time.sleep(seconds)
        return "slow-done"

    @Pyro5.api.expose
    def quick(self):
        return "quick-done"

    @Pyro5.api.expose
    def backend_trouble(self):
        self.runs += 1
        raise Pyro5.errors.TimeoutError("backend did not answer")


def observation_1():
    s_client, s_server = socket.socketpair()
    daemon = Pyro5.api.Daemon(connected_socket=s_server)
    daemon.register(Target(), "target")
    threading.Thread(target=daemon.requestLoop, daemon=True).start()
    proxy = Pyro5.api.Proxy("target", connected_socket=s_client)
    print("obs 1: quick() ->", proxy.quick())
    proxy._pyroTimeout = 0.3
    try:
        proxy.slow(1.0)
    except Pyro5.errors.CommunicationError as x:
        print("obs 1: slow() reply delayed past the timeout ->", type(x).__name__, x)
    time.sleep(1.2)    # the server has finished, the socket pair is open and healthy
    try:
        print("obs 1: next call ->", proxy.quick())
    except Exception as x:
        print("obs 1: next call on the same proxy, healthy socket ->", type(x).__name__, x)


def observation_2():
    config.MAX_RETRIES = 2
    target = Target()
    daemon = Pyro5.api.Daemon(host="127.0.0.1", port=0)
    uri = daemon.register(target, "target")
    threading.Thread(target=daemon.requestLoop, daemon=True).start()
    proxy = Pyro5.api.Proxy(uri)
    proxy._pyroBind()
    before = proxy._pyroConnection
    try:
        proxy.backend_trouble()
    except Pyro5.errors.CommunicationError as x:
        print("obs 2: backend_trouble() raised TimeoutError remotely; caller sees ->", type(x).__name__, x)
    print("obs 2: MAX_RETRIES=2, method ran %d times; proxy connection replaced/dropped: %s"
          % (target.runs, proxy._pyroConnection is not before))
    daemon.shutdown()
    config.MAX_RETRIES = 0


if __name__ == "__main__":
    observation_1()
    observation_2()
