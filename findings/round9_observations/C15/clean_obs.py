"""
Clean-tree observation for C15 (not a seed): the AutoCleaner's "unreachable for too long -> remove(name)" is a
check-then-act across two name server operations (list() ... remove(name)), keyed by NAME only.
A server that re-registers its name with a fresh, reachable URI between the cleaner's list()/connect attempt and
its remove(name) loses the fresh registration.

The window is forced with the demo's own NameServer subclass: its remove() lets "the client" re-register right
before the real remove runs (exactly what a preemption of the cleaner thread at that point would allow).
Exit status 1 = anomaly observed, 0 = not observed.
"""
import os
import socket
import sys
import time

sys.path.insert(0, os.path.abspath(os.path.join(os.path.dirname(os.path.abspath(__file__)), "..")))

import Pyro5  # noqa: E402
import Pyro5.nameserver  # noqa: E402
from Pyro5.errors import NamingError  # noqa: E402


class ObservedNameServer(Pyro5.nameserver.NameServer):
    before_remove = None

    def remove(self, name=None, prefix=None, regex=None):
        hook, self.before_remove = self.before_remove, None
        if hook:
            hook(name)
        return super().remove(name, prefix, regex)


def main():
    # a dead address (port that was free a moment ago) and a live one (listening socket owned by this script)
    s = socket.socket()
    s.bind(("127.0.0.1", 0))
    dead_port = s.getsockname()[1]
    s.close()
    live = socket.socket()
    live.bind(("127.0.0.1", 0))
    live.listen(5)
    live_port = live.getsockname()[1]

    Pyro5.config.NS_AUTOCLEAN = 0.2
    Pyro5.config.COMMTIMEOUT = 1.0
    Pyro5.nameserver.AutoCleaner.override_autoclean_min = True
    Pyro5.nameserver.AutoCleaner.max_unreachable_time = 0.3
    Pyro5.nameserver.AutoCleaner.loop_delay = 0.1

    ns = ObservedNameServer()
    ns.register("service", "PYRO:service@127.0.0.1:%d" % dead_port)
    events = []

    def client_reregisters(name):
        ns.register(name, "PYRO:service@127.0.0.1:%d" % live_port)    # the restarted server announces its new address
        events.append("client re-registered %s -> port %d (reachable), returned OK" % (name, live_port))

    ns.before_remove = client_reregisters
    cleaner = Pyro5.nameserver.AutoCleaner(ns)
    cleaner.start()
    deadline = time.time() + 20
    while ns.before_remove is not None and time.time() < deadline:
        time.sleep(0.05)
    time.sleep(0.3)
    cleaner.stop = True
    cleaner.join(5)
    live.close()
    for e in events:
        print(e)
    try:
        uri = ns.lookup("service")
        print("lookup afterwards:", uri)
        print("not observed")
        return 0
    except NamingError as x:
        print("lookup afterwards: NamingError:", x)
        print("OBSERVED: the completed re-registration with a reachable URI was wiped by the cleaner's remove(name) "
              "that was decided on the OLD uri (each single name server call is atomic, the cleaner's list -> probe -> remove is not)")
        return 1


if __name__ == "__main__":
    sys.exit(main())
