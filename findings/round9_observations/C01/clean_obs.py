"""
Observations on the UNCHANGED tree that touch property C01 (see CLEAN_TREE_OBSERVATIONS.md). Only prints, always exits 0.
"""
import os
import sys

sys.path.insert(0, os.path.abspath(os.path.join(os.path.dirname(os.path.abspath(__file__)), "..")))

from Pyro5 import serializers, protocol, client      # noqa: E402

S = serializers.serializers


def attempt(label, func):
    try:
        print("%-70s -> %r" % (label, func()))
    except Exception as x:     # noqa
        print("%-70s -> raises %s: %s" % (label, type(x).__name__, str(x)[:90]))


# 1. msgpack: dicts with non-string keys can be sent but not received (unpackb default strict_map_key=True)
attempt("msgpack loads(dumps({1: 'a'}))", lambda: S["msgpack"].loads(S["msgpack"].dumps({1: "a"})))
attempt("msgpack loadsCall(dumpsCall(.., ({1: 'a'},), {}))", lambda: S["msgpack"].loadsCall(S["msgpack"].dumpsCall("o", "m", ({1: "a"},), {})))
attempt("serpent loads(dumps({1: 'a'}))   (for comparison)", lambda: S["serpent"].loads(S["serpent"].dumps({1: "a"})))

# 2. msgpack: ints that need more than 4300 decimal digits (python 3.11+ int/str conversion limit) cannot be sent
attempt("msgpack dumps(10**5000)", lambda: len(S["msgpack"].dumps(10 ** 5000)))
attempt("serpent dumps(10**5000)", lambda: len(S["serpent"].dumps(10 ** 5000)))
attempt("marshal loads(dumps(10**5000)) == 10**5000", lambda: S["marshal"].loads(S["marshal"].dumps(10 ** 5000)) == 10 ** 5000)

# 3. SerializedBlob.deserialized() of a received blob uses loads() where loadsCall() is meant; with json that yields a dict key
for name in ("serpent", "json"):
    ser = S[name]
    payload = ser.dumpsCall("obj", "method", ([1, 2, 3],), {})
    sending = protocol.SendingMessage(protocol.MSG_INVOKE, protocol.FLAGS_KEEPSERIALIZED, 1, ser.serializer_id, payload,
                                      annotations={"BLBI": b"x"})
    received = protocol.ReceivingMessage(sending.data[:protocol._header_size], sending.data[protocol._header_size:])
    blob = client.SerializedBlob("info", received, is_blob=True)
    attempt("%s: SerializedBlob(received message).deserialized(), sent ([1,2,3],)" % name, blob.deserialized)

# 4. serpent maps an EMPTY set/frozenset to an empty tuple, a non-empty one to a set (value dependent type mapping)
attempt("serpent loads(dumps([set(), {1}, frozenset(), frozenset([1])]))",
        lambda: S["serpent"].loads(S["serpent"].dumps([set(), {1}, frozenset(), frozenset([1])])))

# 5. a keyword argument called 'self' cannot be passed through a proxy method
def kw_self():
    rm = client._RemoteMethod(lambda name, args, kwargs: (name, args, kwargs), "echo", 0)
    return rm(**{"self": 1})
attempt("_RemoteMethod('echo')(**{'self': 1})", kw_self)
