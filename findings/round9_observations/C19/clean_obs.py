"""
Observations on the UNCHANGED tree that already touch property C19 (not used as seeds).
Prints each observation; always exits 0.
"""
import os
import sys

sys.path.insert(0, os.path.abspath(os.path.join(os.path.dirname(os.path.abspath(__file__)), "..")))

import Pyro5.core
import Pyro5.client
import Pyro5.server
import Pyro5.serializers
from Pyro5.core import URI


def attempt(label, func):
    try:
        print("%-72s -> %r" % (label, func()))
    except Exception as x:
        print("%-72s -> raises %s: %s" % (label, type(x).__name__, x))


print("1. PYROMETA uris (object is a set) are unhashable, so is a proxy holding one")
attempt("hash(URI('PYROMETA:a,b'))", lambda: hash(URI("PYROMETA:a,b")))
attempt("hash(Proxy('PYROMETA:a,b'))", lambda: hash(Pyro5.client.Proxy("PYROMETA:a,b")))

print("2. PYROMETA uri object through json / msgpack comes back with a list as .object and is unequal")
for name, ser in sorted(Pyro5.serializers.serializers.items()):
    u = URI("PYROMETA:a,b@host:1")
    attempt("%s: loads(dumps(u)) == u, type of .object" % name,
            lambda: (ser.loads(ser.dumps(u)) == u, type(ser.loads(ser.dumps(u)).object).__name__))

print("3. a Pyro4-compatibility URI (subclass in another module) cannot be received at all")
import Pyro5.compatibility.Pyro4 as Pyro4
for name, ser in sorted(Pyro5.serializers.serializers.items()):
    attempt("%s: loads(dumps(Pyro4.URI('PYRO:o@h:1')))" % name, lambda: ser.loads(ser.dumps(Pyro4.URI("PYRO:o@h:1"))))

print("4. an object id containing '@' (accepted by Daemon.register) gives a uri for another object on another host")
d = Pyro5.server.Daemon(host="localhost", port=0)
try:
    class Thing(object):
        pass
    attempt("daemon.register(Thing(), objectId='svc@blue')  (object, host)",
            lambda: (lambda u: (u.object, u.host))(d.register(Pyro5.server.expose(Thing)(), objectId="svc@blue")))
finally:
    d.close()

print("5. near-miss strings that are accepted with the junk silently dropped (round trip itself is consistent)")
for text in ["PYRONAME:x@[::1]junk", "PYRO:o@[::1]:5junk", "PYRO:o@h:5\n", "PYRO:o@h:-5"]:
    attempt("str(URI(%r))" % text, lambda: str(URI(text)))
