"""
Observations on the UNCHANGED tree that touch property C04 (not used as seeds).  Prints what it finds, always exits 0.
"""
import os
import sys
import marshal
import threading

sys.path.insert(0, os.path.abspath(os.path.join(os.path.dirname(os.path.abspath(__file__)), "..")))

import Pyro5.serializers       # noqa: E402

events = []
watching = [None]


def audit(event, args):
    if watching[0] == threading.get_ident() and event in ("compile", "exec", "import", "open"):
        events.append((event, repr(args)[:70]))


sys.addaudithook(audit)

# 1. the marshal serializer hands out code objects: marshal.loads builds them, recreate_classes passes them through.
#    A code object is neither plain data nor one of the closed set of classes (it is inert until somebody executes it).
code = compile("__import__('os').getpid()", "<payload>", "eval")
ser = Pyro5.serializers.serializers["marshal"]
blob = marshal.dumps({"harmless": [1, 2, (code,)]})
value = ser.loads(blob)
print("1. marshal loads     ->", value, "| type reachable in the decoded value:", type(value["harmless"][2][0]).__name__)
callblob = marshal.dumps(("obj", "meth", (code,), {"kw": code}))
print("   marshal loadsCall ->", [type(x).__name__ for x in ser.loadsCall(callblob)[2]])

# 2. serpent decoding raises a 'compile' audit event for every payload (serpent.loads parses with ast.parse):
#    a baseline to subtract when audit events are used as the observation, not a defect.
ser = Pyro5.serializers.serializers["serpent"]
blob = ser.dumps([1, 2, 3])
watching[0] = threading.get_ident()
ser.loads(blob)
watching[0] = None
print("2. audit events while serpent decodes [1,2,3]:", events)

# 3. a tagged sqlite3 exception imports the sqlite3 package at decode time (stdlib, named in the property statement)
del events[:]
was_loaded = "sqlite3" in sys.modules
watching[0] = threading.get_ident()
ex = Pyro5.serializers.SerializerBase.dict_to_class(
    {"__class__": "sqlite3.OperationalError", "__exception__": True, "args": ["x"], "attributes": {}})
watching[0] = None
print("3. sqlite3 loaded before decode: %s, after: %s, result %r, import events: %d"
      % (was_loaded, "sqlite3" in sys.modules, ex, len([e for e in events if e[0] == "import"])))
