"""
Clean-tree observations for C13 (run on the UNCHANGED tree). Exits 0 always; prints what it saw.

 1. A tracked resource whose close() also untracks itself (current_context.untrack_resource(self)) mutates the
    WeakSet that SocketConnection.close() is iterating -> "RuntimeError: Set changed size during iteration" escapes
    from close(): remaining resources are not closed; on the multiplex server the exception escapes the request loop
    and the daemon stops serving altogether.
 2. Two tracked resources that compare equal (__eq__/__hash__ by value) collapse into one WeakSet entry:
    the second one is never closed at disconnect.
"""
import os
import sys
import time
import threading

sys.path.insert(0, os.path.abspath(os.path.join(os.path.dirname(os.path.abspath(__file__)), "..")))

import Pyro5.api          # noqa: E402
import Pyro5.server       # noqa: E402
import Pyro5.client       # noqa: E402
from Pyro5 import config  # noqa: E402
from Pyro5.callcontext import current_context   # noqa: E402


class SelfUntracking(object):
    def __init__(self, name):
        self.name = name
        self.close_calls = 0

    def close(self):
        self.close_calls += 1
        try:
            current_context.untrack_resource(self)
        except Exception:
            pass


class ByValue(object):
    def __init__(self, key):
        self.key = key
        self.close_calls = 0

    def __eq__(self, other):
        return isinstance(other, ByValue) and other.key == self.key

    def __hash__(self):
        return hash(self.key)

    def close(self):
        self.close_calls += 1


@Pyro5.api.expose
@Pyro5.api.behavior(instance_mode="single")
class Service(object):
    def __init__(self):
        self.resources = []

    def allocate_selfuntracking(self, n):
        for i in range(n):
            r = SelfUntracking("s%d" % i)
            self.resources.append(r)
            current_context.track_resource(r)

    def allocate_equal(self):
        for i in range(2):
            r = ByValue("same-key")
            self.resources.append(r)
            current_context.track_resource(r)

    def ping(self):
        return "pong"


class CountingDaemon(Pyro5.server.Daemon):
    def __init__(self, *a, **kw):
        super().__init__(*a, **kw)
        self.disconnects = []

    def clientDisconnect(self, conn):
        self.disconnects.append(conn)


def run(servertype, method, *args):
    config.SERVERTYPE = servertype
    config.POLLTIMEOUT = 0.1
    daemon = CountingDaemon(host="127.0.0.1", port=0)
    svc = Service()
    uri = daemon.register(svc, "svc")
    loop_error = []

    def loop():
        try:
            daemon.requestLoop()
        except Exception as x:
            loop_error.append(x)

    t = threading.Thread(target=loop, daemon=True)
    t.start()
    try:
        p = Pyro5.client.Proxy(uri)
        getattr(p, method)(*args)
        p._pyroRelease()
        time.sleep(0.6)
        counts = [r.close_calls for r in svc.resources]
        alive = None
        try:
            with Pyro5.client.Proxy(uri) as p2:
                p2._pyroTimeout = 2
                alive = p2.ping()
        except Exception as x:
            alive = repr(x)
        print("[%s] %s%r: hook calls=%d close() counts=%s requestLoop error=%r daemon still answers=%r"
              % (servertype, method, args, len(daemon.disconnects), counts, loop_error, alive))
    finally:
        try:
            daemon.shutdown()
        except Exception:
            pass
        t.join(3)


if __name__ == "__main__":
    for st in ("thread", "multiplex"):
        run(st, "allocate_selfuntracking", 5)
        run(st, "allocate_equal")
