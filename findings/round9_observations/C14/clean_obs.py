"""
Observations on the UNCHANGED tree for property C14 (not used as seeds). Prints what it sees; always exits 0.
"""
import os
import sys
import shutil
import tempfile

sys.path.insert(0, os.path.abspath(os.path.join(os.path.dirname(os.path.abspath(__file__)), "..")))

import Pyro5.nameserver  # noqa: E402

tmp = tempfile.mkdtemp(prefix="c14obs-")


def backends():
    yield "memory", Pyro5.nameserver.NameServer(Pyro5.nameserver.MemoryStorage())
    yield "sqlite", Pyro5.nameserver.NameServer(Pyro5.nameserver.SqlStorage(os.path.join(tmp, "obs%d.sqlite" % len(os.listdir(tmp)))))


def attempt(f):
    try:
        return f()
    except Exception as x:
        return "%s: %s" % (type(x).__name__, x)


try:
    print("1. the empty string is a registrable name, but it cannot be removed by name (falsy test in remove())")
    for label, ns in backends():
        ns.register("", "PYRO:empty@host:1")
        print("   %-6s lookup('')=%s  remove('')=%r  still listed=%r" % (
            label, ns.lookup(""), ns.remove(""), "" in ns.list()))

    print("2. in-memory back-end hands out its live metadata sets (list/yplookup with return_metadata); sqlite returns copies")
    for label, ns in backends():
        ns.register("svc", "PYRO:svc@host:1", metadata={"a"})
        ns.list(return_metadata=True)["svc"][1].add("INJECTED-BY-CALLER")
        print("   %-6s lookup after mutating the listing result: %r" % (label, sorted(ns.lookup("svc", return_metadata=True)[1])))

    print("3. a name with an embedded NUL character: prefix listing (substr() in sqlite stops at NUL)")
    for label, ns in backends():
        ns.register("a\x00b", "PYRO:nul@host:1")
        print("   %-6s list(prefix='a\\x00')=%r  lookup=%s" % (label, attempt(lambda: sorted(ns.list(prefix="a\x00"))), attempt(lambda: ns.lookup("a\x00b"))))

    print("4. a name with a lone surrogate: accepted by memory, sqlite raises a non-NamingError")
    for label, ns in backends():
        print("   %-6s register -> %r" % (label, attempt(lambda: ns.register("x\ud800", "PYRO:sur@host:1"))))

    print("5. non-str metadata tags (ints): memory keeps the type, sqlite (TEXT affinity) turns them into str")
    for label, ns in backends():
        ns.register("n", "PYRO:n@host:1", metadata={5})
        print("   %-6s lookup -> %r ; yplookup(meta_all={5}) -> %r" % (
            label, ns.lookup("n", return_metadata=True)[1], sorted(ns.yplookup(meta_all={5}))))
finally:
    shutil.rmtree(tmp, ignore_errors=True)
