"""
Observations on the UNCHANGED tree (see CLEAN_TREE_OBSERVATIONS.md). Prints what it sees; exit code 0 always.
"""
import os
import sys
import threading
import time

sys.path.insert(0, os.path.abspath(os.path.join(os.path.dirname(os.path.abspath(__file__)), "..")))

from Pyro5 import config, server, client, errors      # noqa: E402
from Pyro5.svr_threads import Pool, Worker            # noqa: E402


def live_workers():
    return [t for t in threading.enumerate() if isinstance(t, Worker)]


@server.expose
class Thing(object):
    def ping(self):
        return "pong"

    def quit(self):
        sys.exit(0)         # SystemExit is a BaseException, not an Exception


def obs1_systemexit_kills_worker():
    print("--- obs 1: a remote method raising SystemExit kills the worker, which stays booked in Pool.busy")
    config.THREADPOOL_SIZE_MIN = 1
    config.THREADPOOL_SIZE = 1
    config.SERVERTYPE = "thread"
    config.POLLTIMEOUT = 0.2
    d = server.Daemon(host="127.0.0.1", port=0)
    uri = d.register(Thing(), "thing")
    t = threading.Thread(target=d.requestLoop, daemon=True)
    t.start()
    try:
        p = client.Proxy(uri)
        p._pyroTimeout = 3
        assert p.ping() == "pong"
        try:
            p.quit()
        except errors.CommunicationError as x:
            print("client calling quit():", type(x).__name__, x)
        p._pyroRelease()
        time.sleep(0.5)
        pool = d.transportServer.pool
        print("pool: idle=%d busy=%d ; live worker threads=%d" % (len(pool.idle), len(pool.busy), len(live_workers())))
        p2 = client.Proxy(uri)
        p2._pyroTimeout = 3
        try:
            print("new client:", p2.ping())
        except errors.CommunicationError as x:
            print("new client, although nobody is connected any more:", x)
            print("VIOLATION: idle+busy=%d != live workers=%d; the slot is lost for good" %
                  (pool.num_workers(), len(live_workers())))
    finally:
        d.shutdown()
        t.join(5)
        config.reset()


class CountingJob(object):
    def __init__(self):
        self.runs = 0

    def __call__(self):
        self.runs += 1


def obs2_close_drops_accepted_job():
    print("--- obs 2: close() right after process(): the accepted job is overwritten by close's 'None' job, never run")
    config.THREADPOOL_SIZE_MIN = 1
    config.THREADPOOL_SIZE = 1
    pool = Pool()
    try:
        w = next(iter(pool.idle))
        ev = w.job_available
        orig_clear = ev.clear
        parked, go = threading.Event(), threading.Event()

        def clear():                # the demo's own hook: preempt the worker between waking up and reading its job slot
            orig_clear()
            parked.set()
            go.wait(5)
        ev.clear = clear
        job = CountingJob()
        pool.process(job)           # accepted: no PoolError, no NoFreeWorkersError
        assert parked.wait(5)
        closer = threading.Thread(target=pool.close)
        closer.start()
        time.sleep(0.05)            # close() has told all workers to stop (w.process(None)) and sleeps
        go.set()
        closer.join(5)
        time.sleep(0.2)
        print("accepted job ran %d time(s); live worker threads=%d" % (job.runs, len(live_workers())))
        if job.runs == 0:
            print("VIOLATION: a job the pool accepted before close() was neither run nor refused (dropped silently)")
    finally:
        pool.close()
        config.reset()


if __name__ == "__main__":
    obs1_systemexit_kills_worker()
    obs2_close_drops_accepted_job()
