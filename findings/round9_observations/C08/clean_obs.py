"""
C08: observations on the UNCHANGED tree ("the validator raises -> the peer receives a connect-failure carrying
the reason and the connection is closed", quantified over *any* exception type).
Prints what a raw peer sees for validators that refuse with unusual exception types. Always exits 0; read the output.
"""
import os
import sys
import socket
import threading
import time

sys.path.insert(0, os.path.abspath(os.path.join(os.path.dirname(__file__), "..")))

from Pyro5 import config, protocol, serializers, server, socketutil, errors   # noqa: E402

EXECUTED = []


@server.expose
class Target(object):
    def touch(self, what):
        EXECUTED.append(what)


class NastyStr(Exception):
    def __str__(self):
        raise RuntimeError("no text for you")


def make_daemon(exc_factory, servertype):
    class D(server.Daemon):
        def validateHandshake(self, conn, data):
            raise exc_factory()
    config.SERVERTYPE = servertype
    config.POLLTIMEOUT = 0.2
    d = D(host="127.0.0.1", port=0)
    d.register(Target(), "target")
    return d


def peer(daemon, label):
    ser = serializers.serializers["serpent"]
    host, port = daemon.locationStr.split(":")
    sock = socket.create_connection((host, int(port)), timeout=1.5)
    connect = protocol.SendingMessage(protocol.MSG_CONNECT, 0, 1, ser.serializer_id,
                                      ser.dumps({"handshake": "x", "object": "target"}))
    invoke = protocol.SendingMessage(protocol.MSG_INVOKE, 0, 2, ser.serializer_id,
                                     ser.dumpsCall("target", "touch", [label], {}))
    sock.sendall(connect.data + invoke.data)
    conn = socketutil.SocketConnection(sock)
    try:
        first = protocol.recv_stub(conn)
        result = "reply type=%d data=%r" % (first.type, ser.loads(first.data))
    except errors.ConnectionClosedError:
        result = "NO reply, connection closed by daemon"
    except errors.TimeoutError:
        result = "NO reply and connection NOT closed (timeout while waiting)"
    conn.close()
    return result


def run(label, exc_factory, servertype):
    del EXECUTED[:]
    d = make_daemon(exc_factory, servertype)
    t = threading.Thread(target=lambda: _loop(d), daemon=True)
    t.start()
    time.sleep(0.2)
    try:
        seen = peer(d, label)
        time.sleep(0.3)
        extra = ""
        if servertype == "thread":
            extra = "; busy workers afterwards=%d" % len(d.transportServer.pool.busy)
        print("[%s] validator raises %-28s -> peer sees: %s%s; request loop alive=%s; executed=%r" %
              (servertype, label, seen, extra, t.is_alive(), EXECUTED))
    finally:
        try:
            d.shutdown()
        except Exception as x:
            print("    (shutdown: %r)" % x)
        t.join(3)


def _loop(d):
    try:
        d.requestLoop()
    except BaseException as x:    # noqa
        print("    requestLoop terminated with %r" % x)


if __name__ == "__main__":
    for servertype in ("thread", "multiplex"):
        run("ValueError('no')", lambda: ValueError("no"), servertype)                     # baseline: CONNECTFAIL 'no'
        run("ConnectionClosedError('no')", lambda: errors.ConnectionClosedError("no"), servertype)
        run("exception with failing __str__", NastyStr, servertype)
        run("SystemExit", lambda: SystemExit(1), servertype)
