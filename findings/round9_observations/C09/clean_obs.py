"""
Clean-tree observation for C09 (not used as a seed): with instance_mode="percall" the calls inside ONE
batch request (Pyro5.api.BatchProxy) are all served by the same instance: Daemon.handleRequest resolves the
instance once per request message (server.py ~line 439) and then loops over the batched calls.
Whether a batch counts as "one call" is a matter of reading; the docs say "a new instance for every call".
Prints what it sees; exits 0 always (observation, not an assertion about the intended behaviour).
"""
import os
import sys
import threading

sys.path.insert(0, os.path.abspath(os.path.join(os.path.dirname(os.path.abspath(__file__)), "..")))

import Pyro5.api       # noqa: E402
import Pyro5.server    # noqa: E402

ctor_log = []


@Pyro5.server.behavior(instance_mode="percall")
@Pyro5.server.expose
class Counter(object):
    def __init__(self):
        ctor_log.append(len(ctor_log) + 1)
        self.serial = ctor_log[-1]
        self.n = 0

    def bump(self):
        self.n += 1
        return self.serial, self.n


daemon = Pyro5.server.Daemon(host="localhost", port=0)
uri = daemon.register(Counter, "counter")
threading.Thread(target=daemon.requestLoop, daemon=True).start()
with Pyro5.api.Proxy(uri) as p:
    plain = [p.bump() for _ in range(3)]
    batch = Pyro5.api.BatchProxy(p)
    for _ in range(3):
        batch.bump()
    batched = list(batch())
daemon.shutdown()
print("3 plain calls   (serial, n):", plain)
print("3 batched calls (serial, n):", batched)
print("instances constructed:", len(ctor_log), "for 6 calls")
if len({s for s, _ in batched}) == 1:
    print("OBSERVATION: the 3 calls of one batch shared one 'percall' instance (state carried over: n = 1, 2, 3)")
